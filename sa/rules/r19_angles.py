"""R19 -- writer/reader composition for angle sets.

The writer (rpy2r / eul2r) is a word of axis rotations whose literal matrices are checked by T01-T03 and whose order is
checked by R12.  The reader (tr2rpy / tr2eul) is a set of assignments  angle[i] = +-atan2(+-R[a,b], +-R[c,d]),
+-asin(R[a,b]),  +-atan(R[a,b] * trig(angle[j]) / R[c,d]).  Composition: substitute for every R[a,b] the entry of the
symbolic product of the writer's word (a polynomial over the atoms c0,s0,c1,s1,c2,s2 = cos/sin of the three angles,
reduced with s^2 = 1 - c^2) and compare:

   s*atan2(Y, X) = angle_i   iff   X = K*c_i  and  Y = s*K*s_i   with K the principal-range-positive factor
                                    (cos of the middle angle for roll-pitch-yaw, sin of the middle angle for ZYZ, or 1)
   s*asin(E)     = angle_m   iff   E = s*s_m
   s*atan(N / D) = angle_m   iff   s*N*c_m = s_m*D          (cross-multiplied, polynomial identity)

In the singular branches roll (phi) is fixed to 0 and the middle angle to +-pi/2 according to the sign test that guards
the branch.  Nothing is evaluated numerically; an assignment of another shape is ANALYSIS-ERROR (unrecognised), a
recognised shape whose composition is not the identity is a VIOLATION."""
import ast
from fractions import Fraction

from ..terms import Poly, ZERO, ONE
from ..astutil import src, body_nodoc, if_chain
from ..pattern import canon, matches
from ..scope import FuncInfo


class Shape(Exception):
    pass


class OutOfRange(Shape):
    """a constant index outside the 3x3 rotation matrix: IndexError for every input that reaches the statement"""


def C(i):
    return Poly.atom('c%d' % i)


def S(i):
    return Poly.atom('s%d' % i)


def rotm(axis, i):
    c, s = C(i), S(i)
    if axis == 'x':
        return [[ONE, ZERO, ZERO], [ZERO, c, -s], [ZERO, s, c]]
    if axis == 'y':
        return [[c, ZERO, s], [ZERO, ONE, ZERO], [-s, ZERO, c]]
    return [[c, -s, ZERO], [s, c, ZERO], [ZERO, ZERO, ONE]]


def mmul(a, b):
    out = []
    for i in range(3):
        row = []
        for j in range(3):
            acc = ZERO
            for k in range(3):
                acc = acc + a[i][k] * b[k][j]
            row.append(acc)
        out.append(row)
    return out


def reduce_pyth(p):
    """s_i**2 -> 1 - c_i**2 (repeated): canonical representative modulo the Pythagorean identities"""
    changed = True
    while changed:
        changed = False
        r = ZERO
        for mon, v in p.t.items():
            d = dict(mon)
            hit = None
            for a, pw in d.items():
                if a.startswith('s') and pw >= 2:
                    hit = a
                    break
            if hit is None:
                r = r + Poly({mon: v})
                continue
            changed = True
            d[hit] -= 2
            rest = tuple(sorted((a, pw) for a, pw in d.items() if pw))
            base = Poly({rest: v})
            r = r + base - base * Poly.atom('c' + hit[1:]) * Poly.atom('c' + hit[1:])
        p = r
    return p


def word_matrix(word):
    m = None
    for (ax, i) in word:
        r = rotm(ax, i)
        m = r if m is None else mmul(m, r)
    return [[reduce_pyth(e) for e in row] for row in m]


def subst(p, env):
    """substitute atoms by polynomials (env: atom -> Poly)"""
    r = ZERO
    for mon, v in p.t.items():
        term = Poly.const(v)
        for a, pw in mon:
            f = env.get(a, Poly.atom(a))
            for _ in range(pw):
                term = term * f
        r = r + term
    return reduce_pyth(r)


class Reader:
    """interpretation of reader expressions over the symbolic matrix M"""

    def __init__(self, M, arr, Rname='R'):
        self.M = M
        self.arr = arr          # name of the angle array ('rpy' / 'eul')
        self.R = Rname
        self.env = {}           # local scalars (sp, cp): name -> Poly

    def ev(self, e):
        if isinstance(e, ast.Constant) and isinstance(e.value, (int, float)):
            return Poly.const(Fraction(e.value).limit_denominator(10**9))
        if isinstance(e, ast.UnaryOp) and isinstance(e.op, ast.USub):
            return -self.ev(e.operand)
        if isinstance(e, ast.BinOp) and isinstance(e.op, (ast.Add, ast.Sub, ast.Mult)):
            a, b = self.ev(e.left), self.ev(e.right)
            return reduce_pyth(a + b if isinstance(e.op, ast.Add) else a - b if isinstance(e.op, ast.Sub) else a * b)
        # (the 3x3 block of the homogeneous argument T is the same matrix: T[i, j] with i, j < 3 reads R[i, j])
        if isinstance(e, ast.Subscript) and isinstance(e.value, ast.Name) and e.value.id in (self.R, 'T') and isinstance(e.slice, ast.Tuple) \
                and len(e.slice.elts) == 2 and all(isinstance(x, ast.Constant) and isinstance(x.value, int) for x in e.slice.elts):
            i, j = (x.value for x in e.slice.elts)
            if 0 <= i < 3 and 0 <= j < 3:
                return self.M[i][j]
            if e.value.id == self.R and (i > 2 or j > 2 or i < -3 or j < -3):
                raise OutOfRange('%s reads outside the 3x3 rotation matrix' % ast.unparse(e))
        if isinstance(e, ast.Call) and isinstance(e.func, ast.Name) and e.func.id in ('sin', 'cos') and len(e.args) == 1:
            a = e.args[0]
            if isinstance(a, ast.Subscript) and isinstance(a.value, ast.Name) and a.value.id == self.arr and isinstance(a.slice, ast.Constant):
                return (S if e.func.id == 'sin' else C)(a.slice.value)
        if isinstance(e, ast.Name) and e.id in self.env:
            return self.env[e.id]
        raise Shape('expression %s' % src(e, 40))

    def classify(self, e):
        """-> (sign, kind, parts)  kind in atan2 / asin / atan / zero"""
        sign = 1
        while isinstance(e, ast.UnaryOp) and isinstance(e.op, ast.USub):
            sign = -sign
            e = e.operand
        if isinstance(e, ast.Constant) and e.value == 0:
            return (1, 'zero', ())
        if isinstance(e, ast.Call) and isinstance(e.func, ast.Name):
            if e.func.id == 'atan2' and len(e.args) == 2:
                return (sign, 'atan2', (self.ev(e.args[0]), self.ev(e.args[1])))
            if e.func.id == 'asin' and len(e.args) == 1:
                return (sign, 'asin', (self.ev(e.args[0]),))
            if e.func.id == 'atan' and len(e.args) == 1 and isinstance(e.args[0], ast.BinOp) and isinstance(e.args[0].op, ast.Div):
                return (sign, 'atan', (self.ev(e.args[0].left), self.ev(e.args[0].right)))
        raise Shape('assignment value %s' % src(e, 50))


def _decide(kind, sign, parts, i, mid, kpos, fixed=None):
    """-> (ok, message).  i: slot being read; mid: index of the middle angle; kpos: atoms allowed in the positive factor K"""
    if kind == 'atan2':
        Y, X = parts
        ci, si = C(i), S(i)
        # X = K * c_i with K a single monomial free of slot i
        if len(X.t) != 1:
            return False, 'the second argument of atan2 composes to %s, not to K*cos(a%d)' % (X, i)
        (mon, v), = X.t.items()
        d = dict(mon)
        if d.get('c%d' % i) != 1 or ('s%d' % i) in d:
            return False, 'the second argument of atan2 composes to %s, not to K*cos(a%d)' % (X, i)
        del d['c%d' % i]
        K = Poly({tuple(sorted(d.items())): v})
        if v <= 0 or any(a not in kpos or p != 1 for a, p in d.items()):
            return False, ('the common factor of the atan2 arguments is %s, which is not positive on the principal range: the angle '
                           'comes out shifted by pi (both arguments carry the wrong sign)' % K)
        want = reduce_pyth(K * si).scale(sign)
        if Y != want:
            return False, 'the arguments compose to atan2(%s, %s); with the outer sign %+d this is not a%d (expected first argument %s)' % (Y, X, sign, i, want)
        return True, 'atan2(%s, %s) = a%d' % (Y, X, i)
    if kind == 'asin':
        E, = parts
        want = S(mid).scale(sign)
        if i != mid:
            return False, 'asin is used for a%d, which is not the middle angle' % i
        if E != want:
            return False, 'asin argument composes to %s; with the outer sign %+d the result is not a%d (expected %s)' % (E, sign, i, want)
        return True, 'asin(%s) = a%d' % (E, i)
    if kind == 'atan':
        N, D = parts
        if i != mid:
            return False, 'atan(N/D) is used for a%d, which is not the middle angle' % i
        lhs = reduce_pyth(N * C(mid)).scale(sign)
        rhs = reduce_pyth(S(mid) * D)
        if not D.t:
            return False, 'denominator composes to 0'
        if lhs != rhs:
            return False, 'atan(%s / %s) with outer sign %+d is not tan(a%d) = s%d/c%d' % (N, D, sign, mid, mid, mid)
        return True, 'atan(%s / %s) = a%d' % (N, D, i)
    return False, 'unexpected kind ' + kind


def _assignments(fi, stmts, arr):
    """[(slot, value-AST, stmt)] for `arr[k] = value` directly in stmts"""
    out = []
    for st in stmts:
        if isinstance(st, ast.Assign) and len(st.targets) == 1:
            t = st.targets[0]
            if isinstance(t, ast.Subscript) and isinstance(t.value, ast.Name) and t.value.id == arr and isinstance(t.slice, ast.Constant):
                out.append((t.slice.value, canon(fi, st.value, inline=False), st))
    return out


def _sign_test(fi, test, Rname='R'):
    """`R[a,b] > 0` / `R[a,b] < 0` -> ((a,b), +1 / -1)"""
    t = canon(fi, test, inline=False)
    for pat, sg in (('%s[_A, _B] > 0' % Rname, 1), ('%s[_A, _B] < 0' % Rname, -1)):
        b = matches(pat, t)
        if b is not None and isinstance(b['_A'], ast.Constant) and isinstance(b['_B'], ast.Constant):
            return ((b['_A'].value, b['_B'].value), sg)
    return None


def check_tr2rpy(run, words, rule='R19'):
    """words: {frozenset(order names): [(axis, slot) ...]} -- the writer's words (R12 checks rpy2r against the same table)"""
    f = run.prog.func('base/transforms3d:tr2rpy')
    fi = FuncInfo.of(f)
    chain = None
    for st in body_nodoc(f.node):
        if isinstance(st, ast.If):
            arms, els = if_chain(st)
            if any('order' in ast.unparse(t) for (t, _) in arms):
                chain = arms
    if chain is None:
        run.error('R19: tr2rpy: no if-chain over order')
        return
    n = 0
    for (t, body) in chain:
        names = frozenset(c.value for x in ast.walk(t) if isinstance(x, ast.Compare) for c in x.comparators if isinstance(c, ast.Constant))
        word = words.get(names)
        label = '/'.join(sorted(names))
        if word is None:
            run.error('R19: tr2rpy: branch for %s has no writer word' % label)
            continue
        M = word_matrix(word)
        mid = 1
        top = [st for st in body if isinstance(st, ast.If) and st.orelse]
        if len(top) != 1:
            run.error('R19: tr2rpy[%s]: singular/general if-else not found' % label)
            continue
        sing, gen = top[0].body, top[0].orelse
        # ---- the singularity test itself: |R[a,b]| = 1 for the entry that composes to +-sin(pitch)
        gt = canon(fi, top[0].test, inline=False)
        bg = matches('abs(abs(_R[_A, _B]) - 1) < _T', gt) or matches('abs(1 - abs(_R[_A, _B])) < _T', gt) or matches('isclose(abs(_R[_A, _B]), 1, *_X)', gt)
        if bg is not None and isinstance(bg['_A'], ast.Constant) and isinstance(bg['_B'], ast.Constant):
            a_, b_ = bg['_A'].value, bg['_B'].value
            ent_ = M[a_][b_]
            sa_ = ent_.single_atom()
            n += 1
            if sa_ is not None and sa_[1] == 's1':
                run.holds(rule, f.key, '%s: singularity test' % label, '|R[%d,%d]| = |sin(pitch)| = 1' % (a_, b_), f=f, node=top[0])
            else:
                run.violation(rule, f.key, '%s: singularity test' % label, 'the singular branch is entered when |R[%d,%d]| = 1, but with the writer %s that entry composes '
                              'to %s, not to +-sin(pitch): the gimbal-lock case is not detected (and ordinary poses with that entry at +-1 take the '
                              'singular formulas)' % (a_, b_, _w(word), ent_), f=f, node=top[0])
        else:
            run.error('R19: tr2rpy[%s]: singularity test %s is not of the form abs(abs(R[a,b]) - 1) < tol' % (label, src(top[0].test, 40)))
        try:
            # ---- general branch
            rd = Reader(M, 'rpy')
            direct = _assignments(fi, gen, 'rpy')
            got = set()
            for (slot, val, st) in direct:
                sign, kind, parts = rd.classify(val)
                ok, msg = _decide(kind, sign, parts, slot, mid, kpos={'c1'})
                n += 1
                got.add(slot)
                construct = '%s: rpy[%d] = %s' % (label, slot, src(st.value, 40))
                (run.holds if ok else run.violation)(rule, f.key, construct, ('composes with the writer %s to the identity: ' % _w(word) if ok else
                                                     'composed with the writer %s, ' % _w(word)) + msg, f=f, node=st)
            for st in gen:
                if isinstance(st, ast.If):
                    arms, els = if_chain(st)
                    for (tt, bb) in arms + ([(None, els)] if els else []):
                        for (slot, val, st2) in _assignments(fi, bb, 'rpy'):
                            sign, kind, parts = rd.classify(val)
                            ok, msg = _decide(kind, sign, parts, slot, mid, kpos={'c1'})
                            n += 1
                            got.add(slot)
                            construct = '%s: rpy[%d] = %s' % (label, slot, src(st2.value, 44))
                            (run.holds if ok else run.violation)(rule, f.key, construct, ('composes with the writer to the identity: ' if ok else
                                                                 'composed with the writer %s, ' % _w(word)) + msg, f=f, node=st2)
            if got != {0, 1, 2}:
                run.error('R19: tr2rpy[%s]: general branch assigns slots %s' % (label, sorted(got)))
            # ---- singular branch: roll = 0, middle angle = +-pi/2 by the guarding sign test
            sdirect = _assignments(fi, sing, 'rpy')
            z = [x for x in sdirect if x[0] == 0]
            if not z or rd.classify(z[0][1])[1] != 'zero':
                run.violation(rule, f.key, '%s: singular roll' % label, 'the singular branch does not fix roll = 0', f=f)
            else:
                n += 1
                run.holds(rule, f.key, '%s: singular roll' % label, 'roll = 0 is chosen', f=f, node=z[0][2])
            for (slot, val, st) in sdirect:
                if slot == 1:
                    sign, kind, parts = rd.classify(val)
                    ok, msg = _decide(kind, sign, parts, slot, mid, kpos=set())
                    n += 1
                    construct = '%s: singular rpy[1] = %s' % (label, src(st.value, 40))
                    (run.holds if ok else run.violation)(rule, f.key, construct, msg if ok else 'composed with the writer %s, %s' % (_w(word), msg), f=f, node=st)
            inner = [st for st in sing if isinstance(st, ast.If)]
            if len(inner) != 1 or not inner[0].orelse:
                run.error('R19: tr2rpy[%s]: sign test in the singular branch not found' % label)
                continue
            stest = _sign_test(fi, inner[0].test)
            if stest is None:
                run.error('R19: tr2rpy[%s]: singular sign test %s not of the form R[a,b] > 0 / < 0' % (label, src(inner[0].test, 30)))
                continue
            (a, b), sg = stest
            ent = M[a][b]
            sa = ent.single_atom()
            if sa is None or sa[1] != 's1':
                run.violation(rule, f.key, '%s: singular sign test' % label, 'the sign test reads R[%d,%d], which composes to %s, not to +-sin(pitch)' % (a, b, ent), f=f, node=inner[0])
                continue
            for arm, armsg in ((inner[0].body, sg), (inner[0].orelse, -sg)):
                s1 = armsg * sa[0]       # sign of sin(pitch) in this arm
                env = {'s0': ZERO, 'c0': ONE, 'c1': ZERO, 's1': Poly.const(s1)}
                Ms = [[subst(e, env) for e in row] for row in M]
                rs = Reader(Ms, 'rpy')
                for (slot, val, st) in _assignments(fi, arm, 'rpy'):
                    sign, kind, parts = rs.classify(val)
                    ok, msg = _decide(kind, sign, parts, slot, mid, kpos=set())
                    n += 1
                    construct = '%s: singular (pitch = %+d*pi/2) rpy[%d] = %s' % (label, s1, slot, src(st.value, 40))
                    (run.holds if ok else run.violation)(rule, f.key, construct, ('with roll = 0: ' + msg) if ok else
                                                         'with roll = 0 and sin(pitch) = %+d the writer %s gives %s' % (s1, _w(word), msg), f=f, node=st)
        except OutOfRange as ex:
            run.violation(rule, f.key, '%s: index range' % label, '%s: the branch raises IndexError for every pose that reaches it' % ex, f=f)
        except Shape as ex:
            run.error('R19: tr2rpy[%s]: unrecognised %s' % (label, ex))
    return n


def _w(word):
    return ' '.join('R%s(a%d)' % (a, i) for a, i in word)


def _tr2eul_paths(run, f, fi):
    """paths of tr2eul classified: 'singular' (the branch that fixes phi = 0), 'general' (flip false), 'flip' (flip true)"""
    paths = slot_paths(fi, f.node, 'eul')
    cls = {}
    for (conds, slots, ret) in paths:
        if not {0, 1, 2} <= set(slots):
            continue
        flip = [pol for (t, pol) in conds if isinstance(t, ast.Name) and t.id == 'flip']
        z = slots[0]
        if isinstance(z, ast.Constant) and z.value == 0:
            cls.setdefault('singular', slots)
        elif flip and flip[-1]:
            cls.setdefault('flip', slots)
        else:
            cls.setdefault('general', slots)
    return cls


def check_tr2eul(run, word, rule='R19'):
    f = run.prog.func('base/transforms3d:tr2eul')
    fi = FuncInfo.of(f)
    M = word_matrix(word)
    cls = _tr2eul_paths(run, f, fi)
    if 'general' not in cls:
        run.error('R19: tr2eul: no path assigning eul[0..2] outside the singular branch was found')
        return 0
    n = 0
    try:
        rd = Reader(M, 'eul')
        for slot in (0, 1, 2):
            val = cls['general'][slot]
            sign, kind, parts = rd.classify(val)
            ok, msg = _decide(kind, sign, parts, slot, 1, kpos={'s1'})
            n += 1
            construct = 'eul[%d] = %s' % (slot, src(val, 44))
            (run.holds if ok else run.violation)(rule, f.key, construct, ('composes with the writer %s to the identity: ' % _w(word) if ok else
                                                 'composed with the writer %s, ' % _w(word)) + msg, f=f)
    except Shape as ex:
        run.error('R19: tr2eul: unrecognised %s' % ex)
    return n


# =========================================================================== r2q o q2r
def q2r_table():
    s, x, y, z = (Poly.atom(a) for a in 'sxyz')
    two = Poly.const(2)
    return [[ONE - two * (y * y + z * z), two * (x * y - s * z), two * (x * z + s * y)],
            [two * (x * y + s * z), ONE - two * (x * x + z * z), two * (y * z - s * x)],
            [two * (x * z - s * y), two * (y * z + s * x), ONE - two * (x * x + y * y)]]


def check_r2q(run, rule='R19'):
    """Compose r2q with the (checked) q2r monomial table over the atoms s, x, y, z: on every path the vector kv that is
    normalised into the vector part equals (4 s + sigma 4 c) * (x, y, z), c the component selected by the branch, sigma = +1
    exactly in the arm taken when k_c = 4 s c >= 0; and trace(R) + 1 = 4 - 4 |v|^2 (= 4 s^2 for a unit quaternion)."""
    f = run.prog.func('base/quaternions:r2q')
    fi = FuncInfo.of(f)
    M = q2r_table()
    rd = Reader(M, '__none__')
    atoms = {'x': Poly.atom('x'), 'y': Poly.atom('y'), 'z': Poly.atom('z')}
    s = Poly.atom('s')
    four = Poly.const(4)
    paths = []          # (env, sigma, node)

    def ev(e, env):
        rd.env = {k: v for k, v in env.items() if isinstance(v, Poly)}
        return rd.ev(e)

    def run_block(stmts, envs):
        for st in stmts:
            if isinstance(st, ast.Assign) and len(st.targets) == 1 and isinstance(st.targets[0], ast.Name):
                nm = st.targets[0].id
                v = canon(fi, st.value, inline=False)
                new = []
                for env in envs:
                    env = dict(env)
                    if isinstance(v, ast.Compare) and len(v.ops) == 1 and isinstance(v.ops[0], ast.GtE) and \
                            isinstance(v.comparators[0], ast.Constant) and v.comparators[0].value == 0:
                        env[nm] = ('ge0', ev(v.left, env))
                    else:
                        try:
                            env[nm] = ev(v, env)
                        except Shape:
                            env[nm] = ('opaque', v)
                    new.append(env)
                envs = new
            elif isinstance(st, ast.If):
                t = st.test
                if not st.orelse and getattr(st, '_cont', None) is not None:
                    continue        # early-exit guard: the arm leaves the function, the fall-through continues below
                if isinstance(t, ast.Name) and all(isinstance(env.get(t.id), tuple) and env[t.id][0] == 'ge0' for env in envs):
                    a = run_block(st.body, [dict(env, __sigma=1, __test=env[t.id][1]) for env in envs])
                    b = run_block(st.orelse, [dict(env, __sigma=-1, __test=env[t.id][1]) for env in envs])
                    envs = a + b
                elif any(isinstance(x, ast.Return) for x in ast.walk(st)):
                    continue        # validity test / final return
                else:
                    arms, els = if_chain(st)
                    out = []
                    for (tt, bb) in arms:
                        out += run_block(bb, [dict(env) for env in envs])
                    if els:
                        out += run_block(els, [dict(env) for env in envs])
                    envs = out
        return envs

    envs = run_block(body_nodoc(f.node), [{}])
    n = 0
    for env in envs:
        if '__sigma' not in env or not all(isinstance(env.get(k), Poly) for k in ('kx', 'ky', 'kz')):
            continue
        n += 1
        test = env['__test']
        sigma = env['__sigma']
        comp = None
        for nm_, a in atoms.items():
            if test == four * s * a:
                comp = nm_
        arm = '%s-branch, %s arm' % (comp or '?', 'add' if sigma > 0 else 'subtract')
        if comp is None:
            run.violation(rule, f.key, 'r2q o q2r: sign test', 'the arm is selected by the sign of %s, which is not 4*s*(x|y|z) for the composed matrix' % test, f=f)
            continue
        lam = four * s + (four * atoms[comp]).scale(sigma)
        bad = [(k, env[k], lam * atoms[c]) for k, c in (('kx', 'x'), ('ky', 'y'), ('kz', 'z')) if env[k] != lam * atoms[c]]
        if bad:
            k, got, want = bad[0]
            run.violation(rule, f.key, 'r2q o q2r: ' + arm, 'for R = q2r(s, x, y, z) the component %s composes to %s, not to %s: the vector part '
                          'returned is not parallel to (x, y, z) with the sign of s (r2q(q2r(q)) != +-q)' % (k, got, want), f=f)
        else:
            run.holds(rule, f.key, 'r2q o q2r: ' + arm, 'kv = (%s) * (x, y, z): parallel to the vector part, non-negative factor in this arm' % lam, f=f)
    if n != 6:
        run.error('R19: r2q: %d of the expected 6 (branch, arm) paths evaluated' % n)
    # scalar part
    ok = False
    for st in body_nodoc(f.node):
        if isinstance(st, ast.Assign) and isinstance(st.targets[0], ast.Name) and st.targets[0].id == 'qs':
            v = canon(fi, st.value, inline=False)
            b = matches('sqrt(max(0, trace(R) + 1)) / 2.0', v) or matches('sqrt(max(0, trace(R) + 1)) / 2', v)
            if b is not None:
                tr = M[0][0] + M[1][1] + M[2][2] + ONE
                x, y, z = atoms['x'], atoms['y'], atoms['z']
                ok = tr == four - four * (x * x + y * y + z * z)
    (run.holds if ok else run.violation)(rule, f.key, 'r2q o q2r: scalar part', 'qs = sqrt(trace + 1)/2 and trace(q2r(q)) + 1 = 4 - 4|v|^2 = 4 s^2 for a unit quaternion'
                                         if ok else 'scalar part is not sqrt(max(0, trace(R) + 1)) / 2', f=f)
    rets = [canon(fi, r.value, inline=False) for r in ast.walk(f.node) if isinstance(r, ast.Return) and r.value is not None]
    okr = any(matches('r_[qs, sqrt(1.0 - qs ** 2) / nm * kv]', e) is not None for e in rets)
    (run.holds if okr else run.error if False else run.violation)(rule, f.key, 'r2q: assembly', '[qs, sqrt(1 - qs^2) * kv / |kv|]' if okr else
                                                                  'the result is not assembled as [qs, sqrt(1 - qs^2) * kv / nm]', f=f)


# =========================================================================== generic path evaluation of slot assignments
class _SubstNames(ast.NodeTransformer):
    def __init__(self, env):
        self.env = env

    def visit_Name(self, n):
        if isinstance(n.ctx, ast.Load) and n.id in self.env:
            import copy
            return copy.deepcopy(self.env[n.id])
        return n


def slot_paths(fi, fnode, arr, start_after=None):
    """Enumerate the paths of a loop-free function body; on each path collect the values assigned to arr[k] (k constant) with all
    scalar locals substituted by their definitions along that path.  -> [(conds [(test, polarity)], {k: value AST}, return AST or None)]"""
    import copy
    out = []
    # names that are indexed (matrices / the angle array itself) stay atomic; only scalar locals (sp, cp, k ...) are substituted
    keep = {arr} | {x.value.id for x in ast.walk(fnode) if isinstance(x, ast.Subscript) and isinstance(x.value, ast.Name)}

    def sub(e, env):
        return _SubstNames({k: v for k, v in env.items() if k not in keep}).visit(copy.deepcopy(canon(fi, e, inline=False)))

    def walk(stmts, env, slots, conds, depth=0):
        for i, st in enumerate(stmts):
            if isinstance(st, ast.Assign) and len(st.targets) == 1:
                t = st.targets[0]
                if isinstance(t, ast.Name):
                    env = dict(env)
                    env[t.id] = sub(st.value, env)
                    continue
                if isinstance(t, ast.Subscript) and isinstance(t.value, ast.Name) and t.value.id == arr and isinstance(t.slice, ast.Constant):
                    slots = dict(slots)
                    slots[t.slice.value] = sub(st.value, env)
                    continue
                if isinstance(t, (ast.Tuple, ast.List)):
                    env = dict(env)
                    for x in ast.walk(t):
                        if isinstance(x, ast.Name):
                            env.pop(x.id, None)
                    continue
                continue
            if isinstance(st, ast.AugAssign):
                continue
            if isinstance(st, ast.If):
                if depth > 8:
                    return
                from ..astutil import ends_in_raise
                rest = stmts[i + 1:]
                test = sub(st.test, env)
                if not (ends_in_raise(st.body) and not st.orelse and not any(isinstance(x, ast.Return) for s_ in st.body for x in ast.walk(s_))):
                    walk(list(st.body) + rest, env, slots, conds + [(test, True)], depth + 1)
                walk(list(st.orelse) + rest, env, slots, conds + [(test, False)], depth + 1)
                return
            if isinstance(st, ast.Return):
                out.append((conds, slots, sub(st.value, env) if st.value is not None else None))
                return
            if isinstance(st, ast.Raise):
                return
        out.append((conds, slots, None))

    walk(body_nodoc(fnode), {}, {}, [])
    return out


def check_pivot_tables(run, key='base/transforms3d:tr2rpy', rule='R19'):
    """Pivot selection: `k = argmax(abs([e0, e1, e2, e3]))` followed by a chain `k == i: x = atan(num / den_i)` picks, among
    equivalent formulas, the one with the largest denominator.  Each branch i must divide by exactly the i-th candidate of the list:
    otherwise the branch chosen because e_i is large divides by another entry, which may be (nearly) zero."""
    from ..callgraph import own_walk
    f = run.prog.func(key)
    fi = FuncInfo.of(f)
    n = 0

    def blocks(node):
        for fld in ('body', 'orelse', 'finalbody'):
            v = getattr(node, fld, None)
            if isinstance(v, list) and v and isinstance(v[0], ast.stmt):
                yield v
                for st in v:
                    if not isinstance(st, (ast.FunctionDef, ast.ClassDef)):
                        yield from blocks(st)
    for blk in blocks(f.node):
        for i, st in enumerate(blk):
            if not (isinstance(st, ast.Assign) and len(st.targets) == 1 and isinstance(st.targets[0], ast.Name)):
                continue
            b = matches('argmax(abs(_L))', canon(fi, st.value, inline=False))
            if b is None or not isinstance(b['_L'], (ast.List, ast.Tuple)):
                continue
            kname = st.targets[0].id

            class _RT(ast.NodeTransformer):
                # the 3x3 block of the homogeneous argument is the rotation matrix itself: T[i, j] (i, j < 3) reads R[i, j]
                def visit_Subscript(self2, n_):
                    self2.generic_visit(n_)
                    if isinstance(n_.value, ast.Name) and n_.value.id == 'T' and isinstance(n_.slice, ast.Tuple) and len(n_.slice.elts) == 2 and \
                            all(isinstance(z, ast.Constant) and isinstance(z.value, int) and 0 <= z.value < 3 for z in n_.slice.elts):
                        n_.value = ast.Name(id='R', ctx=ast.Load())
                    return n_
            import copy as _cp

            def cn(x):
                return _RT().visit(_cp.deepcopy(canon(fi, x, inline=False)))
            cands = [cn(x) for x in b['_L'].elts]
            chain = blk[i + 1] if i + 1 < len(blk) and isinstance(blk[i + 1], ast.If) else None
            if chain is None:
                continue
            arms, els = if_chain(chain)
            # every candidate of the list has exactly one branch `k == i`
            tested = []
            for (t, body) in arms:
                bb = matches('%s == _I' % kname, t)
                if bb is not None and isinstance(bb['_I'], ast.Constant) and isinstance(bb['_I'].value, int):
                    tested.append(bb['_I'].value)
            odd_tests = [t for (t, body) in arms if kname in {y.id for y in ast.walk(t) if isinstance(y, ast.Name)} and matches('%s == _I' % kname, t) is None]
            if sorted(tested) != list(range(len(cands))) or odd_tests:
                n += 1
                run.violation(rule, f.key, 'pivot chain over %s' % kname, 'the chain after %s = argmax(..) of %d candidates tests %s%s: every candidate index needs exactly '
                              'one `%s == i` branch, otherwise the value selected for some pivot is computed by the formula of another one (or not at all)' % (
                                  kname, len(cands), ', '.join('%s == %d' % (kname, i_) for i_ in tested) or 'nothing',
                                  (' and ' + ', '.join(src(t, 20) for t in odd_tests)) if odd_tests else '', kname), f=f, node=chain)
            for (t, body) in arms:
                bb = matches('%s == _I' % kname, t)
                if bb is None or not isinstance(bb['_I'], ast.Constant) or not isinstance(bb['_I'].value, int):
                    continue
                idx = bb['_I'].value
                divs = [d for s_ in body for d in ast.walk(s_) if isinstance(d, ast.BinOp) and isinstance(d.op, ast.Div)]
                n += 1
                construct = 'pivot branch %s == %d' % (kname, idx)
                if idx >= len(cands):
                    run.violation(rule, f.key, construct, 'the candidate list has %d entries: no branch index %d' % (len(cands), idx), f=f, node=t)
                    continue
                want = ast.dump(cands[idx])
                dens = [cn(d.right) for d in divs]
                if any(ast.dump(d) == want for d in dens):
                    run.holds(rule, f.key, construct, 'divides by candidate %d of the pivot list (%s)' % (idx, src(cands[idx], 20)), f=f, node=t, nontrivial=True)
                elif dens:
                    run.violation(rule, f.key, construct, 'the branch selected because candidate %d = %s has the largest magnitude divides by %s: the pivot '
                                  'list and the formulas disagree, so the formula used may divide by a (nearly) vanishing entry' % (
                                      idx, src(cands[idx], 20), src(dens[0], 20)), f=f, node=t)
    if n < 12:
        run.error('R19: %s: only %d pivot branches found (expected 12)' % (key, n))
    return n
