"""Sensitivity witnesses ("broken twins"): each twin is one small edit of a scratch copy of the CURRENT /repo
source that breaks one rule instance while the code still compiles.  The property's check, run on the twin, must
exit 1 and name the expected rule and subject; run on the unedited copy it must stay clean.

Scratch copies live under tempfile.mkdtemp() and are removed as soon as the verdict is read."""
import json
import os
import shutil
import subprocess
import sys
import tempfile
from concurrent.futures import ThreadPoolExecutor

from .model import repo_root
from .report import VERIF

# (id, property, relative file, old text, new text, expected rule, expected subject substring)
TWINS = [
    # ---- C07
    ('isR-gram-det', 'C07', 'base/transformsNd.py', 'and np.linalg.det(R) > 0', 'and np.linalg.det(R@R.T) > 0', 'R4', 'isR'),
    ('isR-no-orth', 'C07', 'base/transformsNd.py', 'return np.linalg.norm(R@R.T - np.eye(R.shape[0])) < tol * _eps \\\n        and np.linalg.det(R) > 0', 'return np.linalg.det(R) > 0', 'R4', 'isR'),
    ('ishom-no-lastrow', 'C07', 'base/transforms3d.py', '(base.isR(T[:3, :3], tol=tol) and np.all(T[3, :] == np.array([0, 0, 0, 1])))', '(base.isR(T[:3, :3], tol=tol))', 'R4', 'ishom'),
    ('arghandler-none', 'C07', 'smuserlist.py', '                if any(x is None for x in data):\n                    return False\n', '', 'R5', 'arghandler'),
    ('so3-ctor-nocheck', 'C07', 'pose3d.py', 'if not super().arghandler(arg, check=check):', 'if not super().arghandler(arg, check=False):', 'R5', 'SO3'),
    ('se3-ctor-fallthrough', 'C07', 'pose3d.py', "            self.data = [base.transl(x, y, z)]\n\n        else:\n            raise ValueError('bad arguments to constructor')", '            self.data = [base.transl(x, y, z)]', 'R3', 'SE3'),
    ('isunit-zerovec', 'C07', 'base/quaternions.py', 'return base.isunitvec(q, tol=tol)', 'return base.iszerovec(q, tol=tol)', 'R4', 'isunit'),
    ('import-unguarded', 'C07', 'smuserlist.py', 'if not check or self.isvalid(x, check=check):\n            return x', 'if True:\n            return x', 'R5', '_import'),
    # ---- C08
    ('op2-fallthrough', 'C08', 'super_pose.py', "                return [op(x, right) for x in left.A]\n        else:\n            raise ValueError('bad operands')", '                return [op(x, right) for x in left.A]', 'R6', '_op2'),
    ('rmul-unguarded', 'C08', 'super_pose.py', '        if base.isscalar(left):\n            return right.__mul__(left)\n        else:\n            return NotImplemented', '        return right.__mul__(left)', 'R6', '__rmul__'),
    ('userlist-add-back', 'C08', 'smuserlist.py', '    def __add__(self, other):\n        return NotImplemented\n\n    __radd__ = __add__\n', '', 'R6', 'UserList.__add__'),
    ('quat-mul-wrongclass', 'C08', 'quaternion.py', '            return Quaternion(left.binop(right, base.qqmul))', '            return UnitQuaternion(left.binop(right, base.qqmul))', 'R6', 'Quaternion.__mul__'),
    ('inertia-add-oneoperand', 'C08', 'spatialvector.py', 'return SpatialInertia(left.A + right.A)', 'return SpatialInertia(left.A + left.A)', 'R7', 'SpatialInertia.__add__'),
    ('dq-mul-dup-isinstance', 'C08', 'DualQuaternion.py', 'isinstance(left, UnitDualQuaternion) and isinstance(right, UnitDualQuaternion)', 'isinstance(left, UnitDualQuaternion) and isinstance(left, UnitDualQuaternion)', 'R7', 'DualQuaternion.__mul__'),
    # ---- C09
    ('binop-swap', 'C09', 'smuserlist.py', '                # singleton * non-singleton\n                return [op(left.A, x) for x in right.A]\n        else:', '                # singleton * non-singleton\n                return [op(x, left.A) for x in right.A]\n        else:', 'R7', 'binop'),
    ('op2-zip-noguard', 'C09', 'super_pose.py', '                elif len(left) == len(right):\n                    #print(\'== NxN\')', "                elif left.shape == right.shape:\n                    #print('== NxN')", 'R7', '_op2'),
    ('se3-t-noguard', 'C09', 'pose3d.py', '        if len(self) == 1:\n            return self.A[:3, 3]\n        else:\n            return np.array([x[:3, 3] for x in self.A])', '        return self.A[:3, 3]', 'R8', 'SE3.t'),
    ('so3-rpy-branch-kw', 'C09', 'pose3d.py', 'return np.array([base.tr2rpy(x, unit=unit, order=order) for x in self.A])', 'return np.array([base.tr2rpy(x, unit=unit) for x in self.A])', 'R8', 'SO3.rpy'),
    ('twist-isprismatic-data', 'C09', 'twist.py', 'return [base.iszerovec(x.w) for x in self]', 'return [base.iszerovec(x.w) for x in self.data]', 'R8', 'isprismatic'),
    # ---- C10
    ('append-noguard', 'C10', 'smuserlist.py', '        if not type(self) == type(item):\n            raise ValueError("can\'t append different type of object")\n        if len(item) > 1:\n            raise ValueError("can\'t append a multivalued instance - use extend")\n        super().append(item.A)', '        if len(item) > 1:\n            raise ValueError("can\'t append a multivalued instance - use extend")\n        super().append(item.A)', 'RL', 'append'),
    ('insert-guard-after', 'C10', 'smuserlist.py', '        if len(item) > 1:\n            raise ValueError("can\'t insert a multivalued instance - must have len() == 1")\n        super().insert(i, item._A)', '        super().insert(i, item._A)\n        if len(item) > 1:\n            raise ValueError("can\'t insert a multivalued instance - must have len() == 1")', 'RL', 'insert'),
    ('setitem-isinstance', 'C10', 'smuserlist.py', '        if not type(self) == type(value):', '        if not isinstance(value, type(self)):', 'RL', '__setitem__'),
    ('getitem-handslice', 'C10', 'smuserlist.py', 'range(*i.indices(len(self)))', 'range(i.start or 0, i.stop or len(self), i.step or 1)', 'RL', '__getitem__'),
    ('extend-A', 'C10', 'smuserlist.py', 'super().extend(iterable.data)', 'super().extend(iterable._A)', 'RL', 'extend'),
    ('alloc-alias', 'C10', 'smuserlist.py', 'x.data = [cls._identity() for i in range(n)]', 'x.data = [cls._identity()] * n', 'RL', 'Alloc'),
    # ---- C15
    ('so2-double-deg', 'C15', 'pose2d.py', 'self.data = [tr.rot2(x, unit=unit) for x in argcheck.getvector(arg)]', 'self.data = [tr.rot2(x, unit=unit) for x in argcheck.getunit(argcheck.getvector(arg), unit)]', 'R10u', 'SO2.__init__'),
    ('se3-rx-drop-unit', 'C15', 'pose3d.py', 'return cls([base.trotx(x, t=t, unit=unit) for x in base.getvector(theta)], check=False)', 'return cls([base.trotx(x, t=t) for x in base.getvector(theta)], check=False)', 'R10d', 'SE3.Rx'),
    ('qnorm-no-getvector', 'C15', 'base/quaternions.py', '    q = base.getvector(q, 4)\n    return np.linalg.norm(q)', '    return math.sqrt(q[0]**2 + q[1]**2 + q[2]**2 + q[3]**2)', 'R10a', 'qnorm'),
    ('pure-no-dim', 'C15', 'base/quaternions.py', '    v = base.getvector(v, 3)\n    return np.r_[0, v]', '    v = base.getvector(v)\n    return np.r_[0, v]', 'R10b', 'pure'),
    ('rpy2r-no-else', 'C15', 'base/transforms3d.py', "        R = roty(angles[2]) @ rotx(angles[1]) @ rotz(angles[0])\n    else:\n        raise ValueError('Invalid angle order')", '        R = roty(angles[2]) @ rotx(angles[1]) @ rotz(angles[0])\n    else:\n        R = rotz(angles[2]) @ roty(angles[1]) @ rotx(angles[0])', 'R10o', 'rpy2r'),
    ('tr2eul-no-deg', 'C15', 'base/transforms3d.py', "    if unit == 'deg':\n        eul *= 180 / math.pi\n\n    return eul", '    return eul', 'R10', 'tr2eul'),
    # ---- C16
    ('rotx-math-cos', 'C16', 'base/transforms3d.py', "    ct = base.sym.cos(theta)\n    st = base.sym.sin(theta)\n    R = np.array([\n        [1, 0, 0],", "    ct = math.cos(theta)\n    st = base.sym.sin(theta)\n    R = np.array([\n        [1, 0, 0],", 'R11', 'rotx'),
    ('getvector-ndarray-dtype', 'C16', 'base/argcheck.py', "        if v.dtype.kind == 'O':\n            dt = 'O'\n", '', 'R11d', 'getvector'),
    ('trinv-float-alloc', 'C16', 'base/transforms3d.py', 'Ti = np.zeros((4,4), dtype=T.dtype)', 'Ti = np.zeros((4,4))', 'R11a', 'trinv'),
    ('delta-checked', 'C16', 'pose3d.py', 'return cls(base.delta2tr(d), check=False)', 'return cls(base.delta2tr(d))', 'R11c', 'SE3.Delta'),
    # ---- C17
    ('trinv-inplace', 'C17', 'base/transforms3d.py', '    Ti = np.zeros((4,4), dtype=T.dtype)\n    Ti[:3, :3] = R.T', '    Ti = T\n    Ti[:3, :3] = R.T', 'R9', 'trinv'),
    ('rpy2r-angles-inplace', 'C17', 'base/transforms3d.py', "    angles = base.getunit(angles, unit)\n\n    if order == 'xyz' or order == 'arm':", "    angles = base.getunit(angles, unit)\n    angles *= 1.0\n\n    if order == 'xyz' or order == 'arm':", 'R9', 'rpy2r'),
    ('interp-q1-inplace', 'C17', 'quaternion.py', '                q1 = - q1\n                dot = -dot', '                q1 *= -1\n                dot = -dot', 'R9', 'UnitQuaternion.interp'),
    ('pow-matrix-power-inplace', 'C17', 'super_pose.py', 'return self.__class__([np.linalg.matrix_power(x, n) for x in self.data], check=False)', 'out = []\n        for x in self.data:\n            T = np.linalg.matrix_power(x, n)\n            T[0, 0] = T[0, 0]\n            out.append(T)\n        return self.__class__(out, check=False)', 'R9', '__pow__'),
    ('mul-iadd-alias', 'C17', 'super_pose.py', '        return left.__mul__(right)\n\n    def __truediv__', '        left.data[0] = left.data[0] @ right.A\n        return left\n\n    def __truediv__', 'R9', '__imul__'),
    ('rand-in-pure', 'C17', 'base/vectors.py', '    v = getvector(v)\n    n = norm(v)\n', '    v = getvector(v) + 0 * np.random.rand()\n    n = norm(v)\n', 'R9d', 'unitvec'),
    # ---- C01
    ('rotx-sign', 'C01', 'base/transforms3d.py', "        [0, ct, -st],\n        [0, st, ct]])", "        [0, ct, st],\n        [0, st, ct]])", 'R16', 'rotx'),
    ('oa2r-rows', 'C01', 'base/transforms3d.py', "    o = np.cross(a, n)\n    R = np.stack((base.unitvec(n), base.unitvec(o), base.unitvec(a)), axis=1)\n    return R", "    o = np.cross(a, n)\n    R = np.stack((base.unitvec(n), base.unitvec(o), base.unitvec(a)), axis=0)\n    return R", 'R16', 'oa2r'),
    ('angvec2r-rawaxis', 'C01', 'base/transforms3d.py', 'sk = base.skew(base.unitvec(v))', 'sk = base.skew(base.getvector(v))', 'R16', 'angvec2r'),
    ('so3-inv-elementwise', 'C01', 'pose3d.py', 'return SO3(self.A.T, check=False)', 'return SO3(2 * np.eye(3) - self.A, check=False)', 'R15c', 'SO3.inv'),
    ('trexp-V-term', 'C01', 'base/transforms3d.py', 'V = np.eye(3) * theta + (1.0 - math.cos(theta)) * skw + (theta - math.sin(theta)) * skw @ skw', 'V = np.eye(3) * theta + (1.0 - math.cos(theta)) * skw + (theta + math.sin(theta)) * skw @ skw', 'R16', 'trexp'),
    ('uq-ctor-nonorm', 'C01', 'quaternion.py', '                q = base.unit(q)\n            self.data = [q]', '                pass\n            self.data = [q]', 'R13', 'UnitQuaternion.__init__'),
    ('rpy2r-swap', 'C01', 'base/transforms3d.py', 'R = rotz(angles[2]) @ roty(angles[1]) @ rotx(angles[0])', 'R = rotx(angles[2]) @ roty(angles[1]) @ rotz(angles[0])', 'R12', 'rpy2r'),
    # ---- C02
    ('mul-reversed', 'C02', 'super_pose.py', 'return left.__class__(left._op2(right, lambda x, y: x @ y), check=False)', 'return left.__class__(left._op2(right, lambda x, y: y @ x), check=False)', 'R15', '__mul__'),
    ('truediv-noinv', 'C02', 'super_pose.py', 'return left.__class__(left._op2(right.inv(), lambda x, y: x @ y), check=False)', 'return left.__class__(left._op2(right, lambda x, y: x @ y), check=False)', 'R15', '__truediv__'),
    ('trinv-sign', 'C02', 'base/transforms3d.py', '    Ti[:3, 3] = -R.T @ t', '    Ti[:3, 3] = R.T @ t', 'R16', 'trinv'),
    ('trinv2-notranspose', 'C02', 'base/transforms2d.py', '    Ti[:2, 2] = -R.T @ t', '    Ti[:2, 2] = -R @ t', 'R16', 'trinv2'),
    ('qqmul-cross-swapped', 'C02', 'base/quaternions.py', 's1 * v2 + s2 * v1 + np.cross(v1, v2)]', 's1 * v2 + s2 * v1 + np.cross(v2, v1)]', 'R16', 'qqmul'),
    ('prod-reversed', 'C02', 'super_pose.py', '            Tprod = Tprod @ T', '            Tprod = T @ Tprod', 'R15', 'prod'),
    ('qpow-noconj', 'C02', 'base/quaternions.py', '    if power < 0:\n        qr = conj(qr)\n', '', 'R15', 'qpow'),
    ('uq-div-conj-left', 'C02', 'quaternion.py', 'lambda x, y: base.qqmul(x, base.conj(y))', 'lambda x, y: base.qqmul(base.conj(x), y)', 'R15', '__truediv__'),
    # ---- C04
    ('se3-ry-drop-unit', 'C04', 'pose3d.py', 'return cls([base.troty(x, t=t, unit=unit) for x in base.getvector(theta)], check=False)', 'return cls([base.troty(x, t=t) for x in base.getvector(theta)], check=False)', 'R13', 'SE3.Ry'),
    ('uq-ry-slot', 'C04', 'quaternion.py', 'return cls([np.r_[math.cos(a / 2), 0, math.sin(a / 2), 0] for a in angles], check=False)', 'return cls([np.r_[math.cos(a / 2), 0, 0, math.sin(a / 2)] for a in angles], check=False)', 'R13', 'UnitQuaternion.Ry'),
    ('uq-eq-no-unitq', 'C04', 'quaternion.py', 'return left.binop(right, lambda x, y: base.isequal(x, y, unitq=True), list1=False)', 'return left.binop(right, lambda x, y: base.isequal(x, y), list1=False)', 'R13', 'UnitQuaternion.__eq__'),
    ('isequal-no-neg', 'C04', 'base/quaternions.py', 'return (np.sum(np.abs(q1 - q2)) < tol * _eps) or (np.sum(np.abs(q1 + q2)) < tol * _eps)', 'return np.sum(np.abs(q1 - q2)) < tol * _eps', 'R13', 'isequal'),
    ('udq-dual-order', 'C04', 'DualQuaternion.py', '            self.dual = 0.5 * D * S', '            self.dual = 0.5 * S * D', 'R13', 'UnitDualQuaternion.__init__'),
    ('uq-rpy-drop-order', 'C04', 'quaternion.py', 'return cls(base.r2q(base.rpy2r(angles, unit=unit, order=order)), check=False)', 'return cls(base.r2q(base.rpy2r(angles, unit=unit)), check=False)', 'R13', 'UnitQuaternion.RPY'),
    ('trlog-diag-only', 'C04', 'base/transforms3d.py', '            col = R[:, k] + I[:, k]\n            w = col / np.sqrt(2 * (1 + mx))', '            w = np.sqrt((R.diagonal() + 1) / 2)', 'R17', 'trlog'),
    # ---- C05
    ('eul2r-order', 'C05', 'base/transforms3d.py', 'return rotz(angles[0]) @ roty(angles[1]) @ rotz(angles[2])', 'return rotz(angles[2]) @ roty(angles[1]) @ rotz(angles[0])', 'R12', 'eul2r'),
    ('tr2eul-singular', 'C05', 'base/transforms3d.py', "        eul[0] = 0\n        sp = 0\n        cp = 1\n", "        eul[0] = 0\n        sp = 1\n        cp = 0\n", 'R16', 'tr2eul'),
    ('tr2rpy-nodeg', 'C05', 'base/transforms3d.py', "    if unit == 'deg':\n        rpy *= 180 / math.pi\n\n    return rpy", '    return rpy', 'R10x', 'tr2rpy'),
    ('so3-eul-branch-flip', 'C05', 'pose3d.py', 'return np.array([base.tr2eul(x, unit=unit, flip=flip) for x in self.A])', 'return np.array([base.tr2eul(x, unit=unit) for x in self.A])', 'R8', 'SO3.eul'),
    ('tr2rpy-order-alias', 'C05', 'base/transforms3d.py', "    elif order == 'yxz' or order == 'camera':\n\n        if abs(abs(R[1, 2]) - 1) < 10 * _eps:", "    elif order == 'yxz':\n\n        if abs(abs(R[1, 2]) - 1) < 10 * _eps:", 'R10o', 'rpy2r/tr2rpy'),
    # ---- C06
    ('mul-right-T', 'C06', 'super_pose.py', "            #print('*: pose x array')\n            if len(left) == 1 and base.isvector(right, left.N):", "            #print('*: pose x array')\n            if isinstance(right, np.ndarray) and right.ndim == 2 and right.shape[1] == left.N:\n                right = right.T\n            if len(left) == 1 and base.isvector(right, left.N):", 'R16', '__mul__'),
    ('homtrans-noh2e', 'C06', 'base/transformsNd.py', '    return h2e( T @ p )', '    return T @ p', 'R16', 'homtrans'),
    ('qvmul-conj-side', 'C06', 'base/quaternions.py', 'qv = qqmul(q, qqmul(pure(v), conj(q)))', 'qv = qqmul(conj(q), qqmul(pure(v), q))', 'R16', 'qvmul'),
    # ---- C11
    ('trinterp-norange', 'C11', 'base/transforms3d.py', '    if not 0 <= s <= 1: \n        raise ValueError("s outside interval [0,1]")\n', '', 'R14', 'trinterp'),
    ('trinterp-swap', 'C11', 'base/transforms3d.py', '            qr = base.slerp(q0, q1, s)\n            pr = p0 * (1 - s) + s * p1', '            qr = base.slerp(q1, q0, s)\n            pr = p0 * (1 - s) + s * p1', 'R14', 'trinterp'),
    ('slerp-flip-q-only', 'C11', 'base/quaternions.py', '            q0 = -q0   # pylint: disable=invalid-unary-operand-type\n            dotprod = -dotprod # pylint: disable=invalid-unary-operand-type', '            q0 = -q0   # pylint: disable=invalid-unary-operand-type', 'R14', 'slerp'),
    ('slerp-lerp', 'C11', 'base/quaternions.py', '        return ((q0 * s0) + (q1 * s1)) / math.sin(theta)', '        return q0 * (1 - s) + q1 * s', 'R14', 'slerp'),
    ('trinterp2-angle', 'C11', 'base/transforms2d.py', '            pr = p0 * (1 - s) + s * p1\n            th = th0 * (1 - s) + s * th1', '            pr = p0 * (1 - s) + s * p1\n            th = th0 * s + (1 - s) * th1', 'R14', 'trinterp2'),
    ('interp-route', 'C11', 'super_pose.py', 'return self.__class__([base.trinterp(start, x, s=s[0]) for x in self.data])', 'return self.__class__([base.trinterp(start, self.A, s=s[0]) for x in self.data])', 'R8', 'interp'),
    # ---- C12
    ('matrix-sign', 'C12', 'base/quaternions.py', '                     [x, s, -z, y],', '                     [x, s, z, y],', 'R16', 'matrix'),
    ('conj-scalar', 'C12', 'base/quaternions.py', '    return np.r_[q[0], -q[1:4]]', '    return np.r_[-q[0], q[1:4]]', 'R16', 'conj'),
    ('dotb-sign', 'C12', 'base/quaternions.py', '    E = q[0] * (np.eye(3, 3)) + base.skew(q[1:4])', '    E = q[0] * (np.eye(3, 3)) - base.skew(q[1:4])', 'R16', 'dotb'),
    ('dq-mul-order', 'C12', 'DualQuaternion.py', 'dual = left.real * right.dual + left.dual * right.real', 'dual = left.real * right.dual + right.real * left.dual', 'R16', 'DualQuaternion.__mul__'),
    ('q2r-entry', 'C12', 'base/quaternions.py', '[2 * (x * y + s * z), 1 - 2 * (x ** 2 + z ** 2), 2 * (y * z - s * x)],', '[2 * (x * y + s * z), 1 - 2 * (x ** 2 + z ** 2), 2 * (y * z + s * x)],', 'R16', 'q2r'),
    ('qpow-range', 'C12', 'base/quaternions.py', '    for _ in range(0, abs(power)):', '    for _ in range(1, abs(power)):', 'R15', 'qpow'),
    # ---- C13
    ('skew-sign', 'C13', 'base/transformsNd.py', '                [ v[2],  0,    -v[0] ],', '                [ v[2],  0,     v[0] ],', 'R16', 'skew'),
    ('vex-entry', 'C13', 'base/transformsNd.py', 'return np.array([s[2, 1] - s[1, 2], s[0, 2] - s[2, 0], s[1, 0] - s[0, 1]]) / 2', 'return np.array([s[2, 1] - s[1, 2], s[2, 0] - s[0, 2], s[1, 0] - s[0, 1]]) / 2', 'R16', 'vex'),
    ('adjoint-block', 'C13', 'base/transforms3d.py', '                [R, base.skew(t) @ R], \n                [Z, R]', '                [R, R @ base.skew(t)], \n                [Z, R]', 'R16', 'adjoint'),
    ('tr2delta-order', 'C13', 'base/transforms3d.py', '        Td = trinv(T0) @ T1', '        Td = T1 @ trinv(T0)', 'R16', 'tr2delta'),
    ('skewa-slot', 'C13', 'base/transformsNd.py', '        omega[:3, 3] = v[0:3]', '        omega[:3, 3] = v[3:6]', 'R16', 'skewa'),
    ('adjoint2-repeated-test', 'C13', 'base/transforms2d.py', "def adjoint2(T):\n    # http://ethaneade.com/lie.pdf\n    if T.shape == (2,2):", "def adjoint2(T):\n    # http://ethaneade.com/lie.pdf\n    if T.shape == (3,3):", 'R7', 'adjoint2'),
    ('adjoint2-column-sign', 'C13', 'base/transforms2d.py', '[R, np.c_[t[1], -t[0]].T], ', '[R, np.c_[-t[1], t[0]].T], ', 'R16', 'adjoint2'),
    ('adjoint2-column-order', 'C13', 'base/transforms2d.py', '[R, np.c_[t[1], -t[0]].T], ', '[R, np.c_[t[0], -t[1]].T], ', 'R16', 'adjoint2'),
    ('vvmul-cross-sign', 'C12', 'base/quaternions.py', 'return np.r_[qa[1] * qb[2] - qb[1] * qa[2] + qb[0] * t6', 'return np.r_[qb[1] * qa[2] - qa[1] * qb[2] + qb[0] * t6', 'R16', 'vvmul'),
    ('vvmul-scalar-swapped', 'C12', 'base/quaternions.py', '    t6 = math.sqrt(1.0 - np.sum(qa**2))\n    t11 = math.sqrt(1.0 - np.sum(qb**2))', '    t6 = math.sqrt(1.0 - np.sum(qb**2))\n    t11 = math.sqrt(1.0 - np.sum(qa**2))', 'R16', 'vvmul'),
    ('vec3-route', 'C12', 'quaternion.py', '        return base.q2v(self._A)', '        return self._A[1:4]', 'R15', 'vec3'),
    ('qvmul-route-swapped', 'C12', 'quaternion.py', '        return base.vvmul(qv1, qv2)', '        return base.vvmul(qv2, qv1)', 'R15', 'qvmul'),
    ('dot-route-body', 'C12', 'quaternion.py', '        return base.dot(self._A, omega)', '        return base.dotb(self._A, omega)', 'R15', 'UnitQuaternion.dot'),
    ('dq-add-mixed-parts', 'C12', 'DualQuaternion.py', 'return DualQuaternion(left.real + right.real, left.dual + right.dual)', 'return DualQuaternion(left.real + right.real, left.dual + right.real)', 'R16', 'DualQuaternion.__add__'),
    ('dq-sub-reversed', 'C12', 'DualQuaternion.py', 'return DualQuaternion(left.real - right.real, left.dual - right.dual)', 'return DualQuaternion(left.real - right.real, right.dual - left.dual)', 'R16', 'DualQuaternion.__sub__'),
    ('accessor-a-short', 'C09', 'pose3d.py', '        return self.A[:3, 2]', '        return self.A[:2, 2]', 'R8', 'SO3.a'),
    ('accessor-t-both-arms', 'C09', 'pose3d.py', '            return self.A[:3, 3]\n        else:\n            return np.array([x[:3, 3] for x in self.A])', '            return self.A[:3, 2]\n        else:\n            return np.array([x[:3, 2] for x in self.A])', 'R8', 'SE3.t'),
    ('rpy-list-arm-drops-unit', 'C15', 'pose3d.py', '            return cls([base.rpy2tr(a, order=order, unit=unit) for a in angles], check=False)', '            return cls([base.rpy2tr(a, order=order) for a in angles], check=False)', 'R10c', 'SE3.RPY'),
    ('eul-list-arm-drops-unit', 'C15', 'pose3d.py', '            return cls([base.eul2r(a, unit=unit) for a in angles], check=False)', '            return cls([base.eul2r(a) for a in angles], check=False)', 'R10c', 'SO3.Eul'),
    ('se3-inv-view-overwrite', 'C02', 'pose3d.py', '            return SE3([base.trinv(x) for x in self.A], check=False)', '            Ti = np.array(self.A)\n            R = Ti[:, :3, :3]\n            t = Ti[:, :3, 3:]\n            Rt = R.transpose(0, 2, 1)\n            Ti[:, :3, :3] = Rt\n            Ti[:, :3, 3:] = -Rt @ t\n            return SE3(list(Ti), check=False)', 'R24', 'SE3.inv'),
    ('mul-zip-without-length-test', 'C09', 'super_pose.py', "right.shape[0] == left.N and len(left) == right.shape[1]:\n                # SE(n) x matrix", "right.shape[0] == left.N:\n                # SE(n) x matrix", 'R8z', 'SMPose.__mul__'),
    ('simplify-kernel-mixed-kinds', 'C16', 'base/symbolic.py', '    if _symbolics:\n        return sympy.simplify(x)\n    else:\n        return x', '    if _symbolics and not isinstance(x, float):\n        return sympy.simplify(x)\n    else:\n        return x', 'R11v', 'SMPose.simplify'),
    ('slerp-returns-raw-endpoint', 'C15', 'base/quaternions.py', '    q0 = base.getvector(q0, 4)\n    q1 = base.getvector(q1, 4)\n\n    if s == 0:\n        return q0\n    elif s == 1:\n        return q1\n', '    if s == 0:\n        return q0\n    elif s == 1:\n        return q1\n    q0 = base.getvector(q0, 4)\n    q1 = base.getvector(q1, 4)\n', 'R10a', 'slerp'),
    ('se3-so3-transports-unchecked-param', 'C07', 'pose3d.py', "        elif base.isrot(R, check=check):\n            pass\n        else:\n            raise ValueError('expecting SO3 or rotation matrix')\n        return cls(base.r2t(R))", "        elif check and not base.isrot(R):\n            raise ValueError('expecting SO3 or rotation matrix')\n        return cls(base.r2t(R), check=False)", 'R15c', 'SE3.SO3'),
    ('udq-ctor-negates-real-only', 'C06', 'DualQuaternion.py', '        elif real is not None and dual is not None:\n            self.real = real  # quaternion, real part', '        elif real is not None and dual is not None:\n            if real.s < 0:\n                real = -real\n            self.real = real  # quaternion, real part', 'R22', 'UnitDualQuaternion.__init__'),
    ('trlog2-general-logm', 'C03', 'base/transforms2d.py', '        theta = math.atan2(T[1, 0], T[0, 0])\n        if twist:\n            return np.array([theta])\n        else:\n            return base.skew(theta)', '        if twist:\n            return base.vex(scipy.linalg.logm(T))\n        else:\n            return scipy.linalg.logm(T)', 'R25', 'trlog2'),
    ('trlog2-angle-entry', 'C03', 'base/transforms2d.py', '            theta = math.atan2(T[1, 0], T[0, 0])\n            t = T[:2, 2]', '            theta = math.atan2(T[0, 1], T[0, 0])\n            t = T[:2, 2]', 'R25', 'trlog2'),
    ('trlog2-atan', 'C03', 'base/transforms2d.py', '            theta = math.atan2(T[1, 0], T[0, 0])\n            t = T[:2, 2]', '            theta = math.atan(T[1, 0] / T[0, 0])\n            t = T[:2, 2]', 'R25', 'trlog2'),
    ('trlog2-vinv-transposed', 'C03', 'base/transforms2d.py', 'v = np.array([[A, B], [-B, A]]) @ t / (A * A + B * B)', 'v = np.array([[A, -B], [B, A]]) @ t / (A * A + B * B)', 'R25', 'trlog2'),
    ('trlog2-vinv-undivided', 'C03', 'base/transforms2d.py', 'v = np.array([[A, B], [-B, A]]) @ t / (A * A + B * B)', 'v = np.array([[A, B], [-B, A]]) @ t', 'R25', 'trlog2'),
    ('trlog2-theta-unguarded', 'C03', 'base/transforms2d.py', '            if theta == 0:\n                v = t\n            else:\n                A = math.sin(theta) / theta\n                B = 2 * math.sin(theta / 2) ** 2 / theta\n                v = np.array([[A, B], [-B, A]]) @ t / (A * A + B * B)', '            A = math.sin(theta) / theta\n            B = 2 * math.sin(theta / 2) ** 2 / theta\n            v = np.array([[A, B], [-B, A]]) @ t / (A * A + B * B)', 'R25', 'trlog2'),
    ('se2-ctor-wrong-none-test', 'C07', 'pose2d.py', '            elif y is not None and theta is not None:', '            elif x is not None and theta is not None:', 'R10m', 'SE2.__init__'),
    ('mul-isinstance-swapped', 'C06', 'super_pose.py', 'elif isinstance(right, np.ndarray) and left.isSE and right.shape[0] == left.N and len(left) == right.shape[1]:', 'elif isinstance(np.ndarray, right) and left.isSE and right.shape[0] == left.N and len(left) == right.shape[1]:', 'R7', 'SMPose.__mul__'),
    ('trnorm2-wrong-column', 'C14', 'base/transforms2d.py', '    y = base.unitvec(T[:2, 1])', '    y = base.unitvec(T[:2, 0])', 'R16', 'trnorm2'),
    ('trnorm2-perp-sign', 'C14', 'base/transforms2d.py', '    x = np.r_[y[1], -y[0]]', '    x = np.r_[-y[1], y[0]]', 'R16', 'trnorm2'),
    ('ab2m-block-slot', 'C03', 'base/transformsNd.py', '        T = np.zeros((3, 3))\n        T[:2, :2] = A', '        T = np.zeros((3, 3))\n        T[:1, :2] = A', 'R16', 'Ab2M'),
    ('rt2tr-translation-row', 'C03', 'base/transformsNd.py', '        T = np.eye(4)\n        T[:3, :3] = R\n        T[:3, 3] = t', '        T = np.eye(4)\n        T[:3, :3] = R\n        T[3, :3] = t', 'R16', 'rt2tr'),
    ('tr2rt-translation-slot', 'C03', 'base/transformsNd.py', '        t = T[:3, 3]', '        t = T[:3, 2]', 'R16', 'tr2rt'),
    ('mul-seq-missing-transpose', 'C06', 'super_pose.py', 'return np.array([x.A @ y for x, y in zip(left, right.T)]).T', 'return np.array([x.A @ y for x, y in zip(left, right.T)])', 'R16', 'SMPose.__mul__'),
    ('getvector-keeps-array-dtype', 'C15', 'base/argcheck.py', "        if v.dtype.kind == 'O':\n            dt = 'O'", "        if v.dtype.kind in 'Oiuf':\n            dt = v.dtype", 'R10g', 'getvector'),
    ('getvector-fast-path-before-length-test', 'C15', 'base/argcheck.py', "    elif isinstance(v, np.ndarray):\n        s = v.shape", "    elif isinstance(v, np.ndarray):\n        if v.ndim == 1 and out == 'array' and v.dtype == dt:\n            return v.copy()\n        s = v.shape", 'R10g', 'getvector'),
    ('getvector-dtype-default-none', 'C19', 'base/argcheck.py', "def getvector(v, dim=None, out='array', dtype=np.float64):", "def getvector(v, dim=None, out='array', dtype=None):", 'R10g', 'getvector'),
    ('theta-many-values-unscaled', 'C05', 'pose2d.py', '            return [conv * math.atan2(x.A[1, 0], x.A[0, 0]) for x in self]', '            return [math.atan2(x.A[1, 0], x.A[0, 0]) for x in self]', 'R10x', 'SO2.theta'),
    ('pow-zero-one-identity', 'C09', 'super_pose.py', "        assert type(n) is int, 'exponent must be an int'", "        assert type(n) is int, 'exponent must be an int'\n        if n == 0:\n            return self.__class__()", 'R8', 'SMPose.__pow__'),
    ('interp-fixes-shortest', 'C11', 'super_pose.py', 'return self.__class__([base.trinterp(start, self.A, s=_s) for _s in s])', 'return self.__class__([base.trinterp(start, self.A, s=_s, shortest=True) for _s in s])', 'R14', 'SMPose.interp'),
    ('iszerovec-squared-norm', 'C14', 'base/vectors.py', '    return np.linalg.norm(v) < tol * _eps\n\ndef iszero', '    return np.dot(v, v) < tol * _eps\n\ndef iszero', 'R4', 'iszerovec'),
    ('isprismatic-direct-slice', 'C18', 'twist.py', '            return [base.iszerovec(x.w) for x in self]', '            return [base.iszerovec(S[-self.N:]) for S in self.data]', 'R8', 'SMTwist.isprismatic'),
    ('isvector-column-test', 'C15', 'base/argcheck.py', 'or (s[0] > 0 and s[1] == 1)', 'or (s[0] > 0 and s[1] != 1)', 'R4', 'isvector'),
    ('isvector-row-or', 'C15', 'base/argcheck.py', 'or (s[0] == 1 and s[1] > 0)', 'or (s[0] == 1 or s[1] > 0)', 'R4', 'isvector'),
    ('getvector-array-without-dtype', 'C15', 'base/argcheck.py', "        elif out == 'array':\n            return np.array(v, dtype=dt)", "        elif out == 'array':\n            return np.array(v)", 'R10g', 'getvector'),
    ('getunit-inverse-factor', 'C15', 'base/argcheck.py', '            return v * math.pi / 180', '            return v * 180 / math.pi', 'R10g', 'getunit'),
    ('unitvec-norm-squared-threshold', 'C03', 'base/vectors.py', "    n = np.linalg.norm(v)\n\n    if n > 100 * _eps:  # if greater than eps\n        return (v / n, n)", "    nsq = normsq(v)\n\n    if nsq > 100 * _eps:  # if greater than eps\n        n = math.sqrt(nsq)\n        return (v / n, n)", 'R7', 'unitvec_norm'),
    ('uq-mul-delegates-swapped', 'C06', 'quaternion.py', '            return right.__class__(left.binop(right, base.qqmul))', '            return Quaternion.__mul__(right, left) if type(right) is Quaternion else right.__class__(left.binop(right, base.qqmul))', 'R7o', 'UnitQuaternion.__mul__'),
    ('getvector-returns-unconverted', 'C13', 'base/argcheck.py', "        elif out == 'array':\n            return v.astype(dt)", "        elif out == 'array':\n            return v", 'R10g', 'getvector'),
    ('scalartypes-without-numpy', 'C18', 'base/argcheck.py', '_scalartypes = (int, np.integer, float, np.floating) + sym.symtype', '_scalartypes = (int, float) + sym.symtype', 'R10g', '_scalartypes'),
    ('isvector-rejects-object-dtype', 'C16', 'base/argcheck.py', "    if isinstance(v, np.ndarray):\n        s = v.shape\n        if dim is None:", "    if isinstance(v, np.ndarray):\n        if v.dtype.kind not in 'iuf':\n            return False\n        s = v.shape\n        if dim is None:", 'R4', 'isvector'),
    ('getitem-reslice-normalised', 'C10', 'smuserlist.py', 'return self.__class__([self.data[k] for k in range(*i.indices(len(self)))])', 'return self.__class__(self.data[slice(*i.indices(len(self)))])', 'RL', '__getitem__'),
    ('twist-unit-fast-path', 'C14', 'twist.py', '        if self.N == 2:\n            return Twist2(base.unittwist2(self.S))', '        if len(self) == 1 and self.isunit:\n            return self.__class__(self)\n        if self.N == 2:\n            return Twist2(base.unittwist2(self.S))', 'R16', 'SMTwist.unit'),
    ('setitem-isinstance-c07', 'C07', 'smuserlist.py', "        if not type(self) == type(value):\n            raise ValueError(\"can't insert different type of object\")", "        if not isinstance(value, type(self)):\n            raise ValueError(\"can't insert different type of object\")", 'RL', '__setitem__'),
    ('cross-entry', 'C13', 'base/vectors.py', '        u[2] * v[0] - u[0] * v[2],', '        u[0] * v[2] - u[2] * v[0],', 'R16', 'cross'),
    ('tr2jac-notranspose', 'C13', 'base/transforms3d.py', '        return np.block([[R.T, Z], [Z, R.T]])', '        return np.block([[R, Z], [Z, R]])', 'R16', 'tr2jac'),
    # ---- C14
    ('trnorm-axis', 'C14', 'base/transforms3d.py', "    o = np.cross(a, n)        # (a)];\n    R = np.stack((base.unitvec(n), base.unitvec(o), base.unitvec(a)), axis=1)", "    o = np.cross(a, n)        # (a)];\n    R = np.stack((base.unitvec(n), base.unitvec(o), base.unitvec(a)), axis=0)", 'R16', 'trnorm'),
    ('trnorm-lose-t', 'C14', 'base/transforms3d.py', '        return base.rt2tr(R, T[:3, 3])\n    else:\n        return R', '        return base.rt2tr(R, T[:3, 2])\n    else:\n        return R', 'R16', 'trnorm'),
    ('unittwist-selector', 'C14', 'base/vectors.py', "    v = S[0:3]\n    w = S[3:6]\n\n    if iszerovec(w):\n        th = norm(v)\n    else:\n        th = norm(w)\n\n    return S / th", "    v = S[0:3]\n    w = S[3:6]\n\n    if iszerovec(v):\n        th = norm(v)\n    else:\n        th = norm(w)\n\n    return S / th", 'R16', 'unittwist'),
    ('angdiff-shift', 'C14', 'base/vectors.py', '        return np.mod(a - b + math.pi, 2 * math.pi) - math.pi', '        return np.mod(a - b, 2 * math.pi) - math.pi', 'R16', 'angdiff'),
    ('unit-wrong-norm', 'C14', 'base/quaternions.py', '    return q / nm', '    return q / (nm * nm)', 'R16', 'unit'),
    # ---- C18
    ('revolute-sign', 'C18', 'twist.py', '        v = -np.cross(w, base.getvector(q, 3))', '        v = np.cross(w, base.getvector(q, 3))', 'R16', 'Revolute'),
    ('exp-nounit', 'C18', 'twist.py', "        else:\n            theta = base.getunit(theta, units)\n\n        if base.isscalar(theta):\n            # theta is a scalar\n            return SE3([base.trexp(S * theta) for S in self.data])", "        elif base.isscalar(theta):\n            theta = base.getunit(theta, units)\n\n        if base.isscalar(theta):\n            # theta is a scalar\n            return SE3([base.trexp(S * theta) for S in self.data])", 'R10u', 'Twist3.exp'),
    ('pitch-slots', 'C18', 'twist.py', '        return np.dot(self.w, self.v)', '        return np.dot(self.w, self.w)', 'R16', 'pitch'),
    ('twist-w-slot', 'C18', 'twist.py', '        return self.data[0][3:6]', '        return self.data[0][2:5]', 'R16', 'Twist3.w'),
    ('prismatic-nounit', 'C18', 'twist.py', "        w = np.r_[0, 0, 0]\n        v = base.unitvec(base.getvector(a, 3))", "        w = np.r_[0, 0, 0]\n        v = base.getvector(a, 3)", 'R16', 'Prismatic'),
    # ---- C19
    ('pq-moment', 'C19', 'geom3d.py', '        v = np.cross(P - Q, P)', '        v = np.cross(P, P - Q)', 'R16', 'PQ'),
    ('contains-sign', 'C19', 'geom3d.py', 'return abs(np.dot(self.n, p) + self.d) < tol', 'return abs(np.dot(self.n, p) - self.d) < tol', 'R16', 'Plane.contains'),
    ('isparallel-sense', 'C19', 'geom3d.py', 'return np.linalg.norm(np.cross(l1.w, l2.w) ) < tol', 'return abs(1 - np.dot(l1.uw, l2.uw)) < tol', 'R16s', 'isparallel'),
    ('pp-order', 'C19', 'geom3d.py', 'return np.cross(self.v, self.w) / np.dot(self.w, self.w)', 'return np.cross(self.w, self.v) / np.dot(self.w, self.w)', 'R16', 'Plucker.pp'),
    ('rmul-block', 'C19', 'geom3d.py', 'A = np.r_[ np.c_[left.R,          base.skew(-left.t) @ left.R],', 'A = np.r_[ np.c_[left.R,          base.skew(left.t) @ left.R],', 'R16', '__rmul__'),
    ('planes-v', 'C19', 'geom3d.py', '        v = pi2.d * pi1.n - pi1.d * pi2.n', '        v = pi1.d * pi1.n - pi2.d * pi2.n', 'R16', 'Planes'),
    # ---- C20
    ('vcross-entry', 'C20', 'spatialvector.py', '[ 0,     0,     0,      v[5],   0,    -v[3]   ],', '[ 0,     0,     0,      v[5],   0,     v[3]   ],', 'R16', 'cross'),
    ('force-notranspose', 'C20', 'spatialvector.py', 'return SpatialForce(-vcross.T @ other.A)', 'return SpatialForce(-vcross @ other.A)', 'R16', 'cross'),
    ('rmul-force-ad', 'C20', 'spatialvector.py', '                return right.__class__([X.T @ x for x in right.data])', '                return right.__class__([X @ x for x in right.data])', 'R16', '__rmul__'),
    ('inertia-block', 'C20', 'spatialvector.py', '                    [m * C,         I + m * C @ C.T]', '                    [m * C,         I + m * C @ C]', 'R16', 'SpatialInertia.__init__'),
    ('sv-add-noguard', 'C20', 'spatialvector.py', "        if type(left) != type(right):\n            raise TypeError('can only add spatial vectors of same type')\n        if len(left) != len(right):\n            raise ValueError('can only add equal length arrays of spatial vectors')\n\n        return left.__class__([x + y for x, y in zip(left.data, right.data)])", "        if len(left) != len(right):\n            raise ValueError('can only add equal length arrays of spatial vectors')\n\n        return left.__class__([x + y for x, y in zip(left.data, right.data)])", 'R16', '__add__'),
    ('sv-ctor-asarray', 'C20', 'spatialvector.py', '        elif base.ismatrix(value, (6, None)):\n            self.data = [x for x in value.T]', '        elif base.ismatrix(np.asarray(value), (6, None)):\n            self.data = [x for x in np.asarray(value).T]', 'R16', 'SpatialVector.__init__'),
    # ---- rules added after seeded round b
    ('pow-transpose', 'C01', 'super_pose.py', 'return self.__class__([np.linalg.matrix_power(x, n) for x in self.data], check=False)', 'return self.__class__([np.linalg.matrix_power(x.T, -n) if n < 0 else np.linalg.matrix_power(x, n) for x in self.data], check=False)', 'R15c', '__pow__'),
    ('se3-inv-transpose', 'C01', 'pose3d.py', '            return SE3(base.trinv(self.A), check=False)', '            return SE3(self.A.T, check=False)', 'R15c', 'SE3.inv'),
    ('trlog-diag-c02', 'C02', 'base/transforms3d.py', '            skw = (R - R.T) / 2\n            st = base.norm(base.vex(skw))', '            skw = base.skew(np.sqrt(np.abs(np.diag(R) + 1) / 2))\n            st = math.sqrt(1 - ((np.trace(R) - 1) / 2) ** 2)', 'R17', 'trlog'),
    ('udq-dual-negated', 'C04', 'DualQuaternion.py', '        elif real is not None and dual is not None:\n            self.real = real  # quaternion, real part\n            self.dual = dual  # quaternion, dual part\n        elif dual is None and isinstance(real, SE3):', '        elif real is not None and dual is not None:\n            if dual.s < 0:\n                dual = -dual\n            self.real = real  # quaternion, real part\n            self.dual = dual  # quaternion, dual part\n        elif dual is None and isinstance(real, SE3):', 'R13', 'UnitDualQuaternion.__init__'),
    ('uq-angvec-vector-part', 'C05', 'quaternion.py', '        return base.tr2angvec(self.R, unit=unit)', '        return (2 * math.acos(abs(self.s)) * (180 / math.pi if unit == "deg" else 1), base.unitvec(self.v))', 'R16s', 'angvec'),
    ('uq-rpy-from-vec', 'C05', 'quaternion.py', '            return base.tr2rpy(self.R, unit=unit, order=order)', '            return base.tr2rpy(base.rotx(self.s), unit=unit, order=order)', 'R16s', 'UnitQuaternion.rpy'),
    ('mul-vector-left', 'C06', 'super_pose.py', '                    return left.A @ v', '                    return (v.T @ left.A).T', 'R16', '__mul__'),
    ('twist3-rmul-raw', 'C09', 'twist.py', '            return Twist3(right.binop(left, lambda x, y: x * y))', '            return Twist3(right.S * left)', 'R8', 'Twist3.__rmul__'),
    ('twist3-exp-scalar-S', 'C09', 'twist.py', '            return SE3([base.trexp(S * theta) for S in self.data])', '            return SE3(base.trexp(self.S * theta))', 'R8', 'Twist3.exp'),
    ('arghandler-share-list', 'C10', 'smuserlist.py', '            self.data = copy.copy(arg.data)', '            self.data = arg.data', 'R5', 'arghandler'),
    ('qlog-sign-blind', 'C12', 'quaternion.py', '        v = math.acos(self.s / norm) * base.unitvec(self.v)', '        v = math.atan2(base.norm(self.v), abs(self.s)) * base.unitvec(self.v)', 'R17', 'Quaternion.log'),
    ('simplify-skip-last-col', 'C16', 'super_pose.py', '        return self.__class__([vf(x) for x in self.data], check=False)', '        def part(x):\n            y = x.copy()\n            y[:, :-1] = vf(x[:, :-1])\n            return y\n        return self.__class__([part(x) for x in self.data], check=False)', 'R18', 'simplify'),
    ('contains-recursion-tol', 'C19', 'geom3d.py', '            return [np.linalg.norm(np.cross(_ - self.pp, self.w)) < tol for _ in x.T]', '            return [self.contains(_) for _ in x.T]', 'R10r', 'Plucker.contains'),
    ('contains-columns-tol', 'C19', 'geom3d.py', '            return [np.linalg.norm(np.cross(_ - self.pp, self.w)) < tol for _ in x.T]', '            return [np.linalg.norm(np.cross(_ - self.pp, self.w)) < 50*_eps for _ in x.T]', 'R16', 'Plucker.contains'),
    ('contains-rows', 'C19', 'geom3d.py', '            return [np.linalg.norm(np.cross(_ - self.pp, self.w)) < tol for _ in x.T]', '            return [np.linalg.norm(np.cross(_ - self.pp, self.w)) < tol for _ in x]', 'R16', 'Plucker.contains'),
    # ---- R19 writer/reader composition
    ('rpy-zyx-yaw-index', 'C05', 'base/transforms3d.py', '            rpy[2] = math.atan2(R[1, 0], R[0, 0])  # Y', '            rpy[2] = math.atan2(R[0, 1], R[0, 0])  # Y', 'R19', 'tr2rpy'),
    ('rpy-zyx-sing-sign', 'C05', 'base/transforms3d.py', '                rpy[2] = -math.atan2(R[0, 1], R[0, 2])  # R-Y', '                rpy[2] = math.atan2(R[0, 1], R[0, 2])  # R-Y', 'R19', 'tr2rpy'),
    ('rpy-xyz-pitch-k1', 'C05', 'base/transforms3d.py', '                rpy[1] = -math.atan(R[0, 2] * math.sin(rpy[0]) / R[0, 1])', '                rpy[1] = math.atan(R[0, 2] * math.sin(rpy[0]) / R[0, 1])', 'R19', 'tr2rpy'),
    ('rpy-yxz-roll-swap', 'C05', 'base/transforms3d.py', '            rpy[0] = math.atan2(R[1, 0], R[1, 1])', '            rpy[0] = math.atan2(R[1, 1], R[1, 0])', 'R19', 'tr2rpy'),
    ('rpy-xyz-sing-asin', 'C05', 'base/transforms3d.py', '            rpy[1] = math.asin(R[0, 2])', '            rpy[1] = -math.asin(R[0, 2])', 'R19', 'tr2rpy'),
    ('eul-psi-args', 'C05', 'base/transforms3d.py', '        cp = math.cos(eul[0])\n        eul[1] = math.atan2(cp * R[0, 2] + sp * R[1, 2], R[2, 2])\n        eul[2] = math.atan2(-sp * R[0, 0] + cp * R[1, 0], -sp * R[0, 1] + cp * R[1, 1])', '        cp = math.cos(eul[0])\n        eul[1] = math.atan2(cp * R[0, 2] + sp * R[1, 2], R[2, 2])\n        eul[2] = math.atan2(-sp * R[0, 0] + cp * R[1, 0], sp * R[0, 1] + cp * R[1, 1])', 'R19', 'tr2eul'),
    ('eul-theta-neg', 'C05', 'base/transforms3d.py', '        cp = math.cos(eul[0])\n        eul[1] = math.atan2(cp * R[0, 2] + sp * R[1, 2], R[2, 2])', '        cp = math.cos(eul[0])\n        eul[1] = math.atan2(cp * R[0, 2] - sp * R[1, 2], R[2, 2])', 'R19', 'tr2eul'),
    # ---- rules added after seeded round c
    ('eq-identity-shortcut', 'C09', 'super_pose.py', "        assert type(left) == type(right), 'operands to == are of different types'\n        return left._op2(right, lambda x, y: np.allclose(x, y))", "        assert type(left) == type(right), 'operands to == are of different types'\n        if left is right:\n            return True\n        return left._op2(right, lambda x, y: np.allclose(x, y))", 'R8h', '__eq__'),
    ('uqinterp-shortest-dest-only', 'C11', 'quaternion.py', '        if shortest:\n            if dot < 0:\n                q1 = - q1\n                dot = -dot\n\n        dot = np.clip(dot, -1, 1)  # Clip within domain of acos()', '        if dest is not None and shortest:\n            if dot < 0:\n                q1 = - q1\n                dot = -dot\n\n        dot = np.clip(dot, -1, 1)  # Clip within domain of acos()', 'R14', 'UnitQuaternion.interp'),
    ('trinterp-so3-t2r', 'C11', 'base/transforms3d.py', '            q0 = base.r2q(end)\n            qr = base.slerp(base.eye(), q0, s)', '            q0 = base.r2q(base.t2r(end))\n            qr = base.slerp(base.eye(), q0, s)', 'R20', 'trinterp'),
    ('rt2tr-no-length-test', 'C15', 'base/transformsNd.py', '    if R.shape[0] != t.shape[0]:\n        raise ValueError("R and t must have the same number of rows")\n', '', 'R10l', 'rt2tr'),
    ('trinv-dtype-other-arg', 'C13', 'base/transforms3d.py', '        Td = trinv(T0) @ T1\n', '        Td = np.zeros((4, 4), dtype=T0.dtype)\n        Td[:, :] = trinv(T0) @ T1\n', 'R11a', 'tr2delta'),
    ('det-closed-form-typo', 'C16', 'base/transformsNd.py', "    if m.dtype.kind == 'O':\n        return Matrix(m).det()", "    if m.dtype.kind == 'O':\n        if m.shape == (2, 2):\n            return m[0, 0] * m[1, 1] + m[0, 1] * m[1, 0]\n        return Matrix(m).det()", 'R16', 'det'),
    ('se3-inv-memo', 'C06', 'pose3d.py', '        if len(self) == 1:\n            return SE3(base.trinv(self.A), check=False)', '        if len(self) == 1:\n            if getattr(self, "_inv", None) is None:\n                self._inv = SE3(base.trinv(self.A), check=False)\n            return self._inv', 'R9', 'SE3.inv'),
    ('se3-Ad-memo', 'C20', 'pose3d.py', '        return base.adjoint(self.A)', '        if getattr(self, "_Ad", None) is None:\n            self._Ad = base.adjoint(self.A)\n        return self._Ad', 'R9', 'SE3.Ad'),
    # ---- C03 structural clauses
    ('trlog-general-transposed', 'C03', 'base/transforms3d.py', '            skw = (R - R.T) / 2\n            st', '            skw = (R.T - R) / 2\n            st', 'R19', 'trlog'),
    ('trlog-acos-zero-divisor', 'C03', 'base/transforms3d.py', '            skw = (R - R.T) / 2\n            st = base.norm(base.vex(skw))\n            theta = math.atan2(st, (np.trace(R) - 1) / 2)\n            if st > 0:\n                skw = skw / st\n', '            theta = math.acos((np.trace(R) - 1) / 2)\n            skw = (R - R.T) / 2 / math.sin(theta)\n', 'R19', 'trlog'),
    ('trlog-unguarded-norm-division', 'C03', 'base/transforms3d.py', '            if st > 0:\n                skw = skw / st\n', '            skw = skw / st\n', 'R19', 'trlog'),
    ('trlog-atan2-swapped', 'C03', 'base/transforms3d.py', 'theta = math.atan2(st, (np.trace(R) - 1) / 2)', 'theta = math.atan2((np.trace(R) - 1) / 2, st)', 'R19', 'trlog'),
    ('trlog-acos-arg', 'C03', 'base/transforms3d.py', '            theta = math.atan2(st, (np.trace(R) - 1) / 2)', '            theta = math.atan2(st, (np.trace(R) - 2) / 2)', 'R19', 'trlog'),
    ('trlog-twist-order', 'C03', 'base/transforms3d.py', '                    return np.r_[v, w]', '                    return np.r_[w, v]', 'R21', 'trlog'),
    ('trlog-ginv-sign', 'C03', 'base/transforms3d.py', 'Ginv = np.eye(3) - S / 2 +', 'Ginv = np.eye(3) + S / 2 +', 'R21', 'trlog'),
    ('se3exp-matrix-rows', 'C03', 'pose3d.py', '        elif base.ismatrix(S, (4, 4)):\n            return cls(base.trexp(S, check=check), check=False)\n', '', 'R21', 'SE3.Exp'),
    ('se2exp-list-vector', 'C03', 'pose2d.py', '        if isinstance(S, (list, tuple)) and not argcheck.isvector(S, 3):', '        if isinstance(S, (list, tuple)):', 'R21', 'SE2.Exp'),
    ('trexp-V-sign', 'C03', 'base/transforms3d.py', '        V = np.eye(3) * theta + (1.0 - math.cos(theta)) * skw + (theta - math.sin(theta)) * skw @ skw', '        V = np.eye(3) * theta + (1.0 - math.cos(theta)) * skw + (theta + math.sin(theta)) * skw @ skw', 'R16', 'trexp'),
    ('log-drops-twist', 'C03', 'super_pose.py', '            log = [base.trlog(x, twist=twist) for x in self.data]', '            log = [base.trlog(x) for x in self.data]', 'R21', 'SMPose.log'),
    ('trlog-halfturn-diag', 'C03', 'base/transforms3d.py', '            col = R[:, k] + I[:, k]\n            w = col / np.sqrt(2 * (1 + mx))', '            w = np.sqrt((diagonal + 1) / 2)', 'R17', 'trlog'),
    # ---- R22 / R23 / exp dependence
    ('udq-point-plain-conj', 'C06', 'DualQuaternion.py', 'vp = left * DualQuaternion.Pure(v) * DualQuaternion(left.real.conj(), -1 * left.dual.conj())', 'vp = left * DualQuaternion.Pure(v) * left.conj()', 'R22', '__mul__'),
    ('udq-point-wrong-side', 'C06', 'DualQuaternion.py', 'vp = left * DualQuaternion.Pure(v) * DualQuaternion(left.real.conj(), -1 * left.dual.conj())', 'vp = DualQuaternion(left.real.conj(), -1 * left.dual.conj()) * DualQuaternion.Pure(v) * left', 'R22', '__mul__'),
    ('intersect-lam-normal', 'C19', 'geom3d.py', '            t = np.dot(p - self.pp, self.uw)', '            t = np.dot(p - self.pp, plane.n)', 'R23', 'intersect_plane'),
    ('intersect-p-sign', 'C19', 'geom3d.py', '            p = (np.cross(self.v, plane.n) - plane.d * self.w) / den', '            p = (np.cross(self.v, plane.n) + plane.d * self.w) / den', 'R23', 'intersect_plane'),
    ('distance-skew-squared', 'C19', 'geom3d.py', '                l = abs(np.dot(l1.w, l2.v) + np.dot(l2.w, l1.v)) / np.linalg.norm(np.cross(l1.w, l2.w))', '                l = abs(np.dot(l1.w, l2.v) + np.dot(l2.w, l1.v)) / np.linalg.norm(np.cross(l1.w, l2.w))**2', 'R23', 'distance'),
    ('distance-parallel-vector', 'C19', 'geom3d.py', '            l = np.linalg.norm(np.cross(l1.w, l1.v - l2.v * np.dot(l1.w, l2.w) / np.dot(l2.w, l2.w))) / np.dot(l1.w, l1.w)', '            l = np.cross(l1.w, l1.v - l2.v * np.dot(l1.w, l2.w) / np.dot(l2.w, l2.w)) / np.dot(l1.w, l1.w)', 'R23', 'distance'),
    ('closest-lam-w', 'C19', 'geom3d.py', '        lam = np.dot(x - self.pp, self.uw)', '        lam = np.dot(x - self.pp, self.w)', 'R23', 'closest'),
    ('trexp2-so2-theta-only', 'C03', 'base/transforms2d.py', "        # do Rodrigues' formula for rotation\n        return base.rodrigues(w, theta)\n    else:\n        raise ValueError(\" First argument must be SO(2), 1-vector, SE(2) or 3-vector\")", "        if theta is None:\n            return base.rodrigues(w, theta)\n        return rot2(theta)\n    else:\n        raise ValueError(\" First argument must be SO(2), 1-vector, SE(2) or 3-vector\")", 'R17', 'trexp2'),
    ('sv-rmul-whole-A', 'C20', 'spatialvector.py', '                return right.__class__([X @ x for x in right.data])', '                return right.__class__(X @ right.A)', 'R8', '__rmul__'),
    ('inertia-mul-whole-A', 'C20', 'spatialvector.py', '            return SpatialForce(left.binop(right, lambda x, y: x @ y))  # F = ma', '            return SpatialForce(left.A @ right.A)  # F = ma', 'R8', 'SpatialInertia.__mul__'),
    ('dq-norm-sqrt-dual', 'C12', 'DualQuaternion.py', '        return (base.sqrt(a.s), b.s / (2 * base.sqrt(a.s)))', '        return (base.sqrt(a.s), base.sqrt(b.s))', 'R16', 'norm'),
    ('so3-rpy-stack-T', 'C09', 'pose3d.py', 'return np.array([base.tr2rpy(x, unit=unit, order=order) for x in self.A])', 'return np.array([base.tr2rpy(x, unit=unit, order=order) for x in self.A]).T', 'R8', 'SO3.rpy'),
    ('plane-p3-ismatrix', 'C19', 'geom3d.py', '        p = base.getmatrix(p, (3,3))', '        p = base.ismatrix(p, (3,3))', 'R20', 'Plane.P3'),
    ('plane-p3-ctor-arity', 'C19', 'geom3d.py', '        return cls.PN(v1, n)', '        return cls(n, v1)', 'R1a', 'Plane.P3'),
    ('quat-ctor-no-shape', 'C07', 'quaternion.py', "                if not all(x.shape == (4,) for x in self.data):\n                    raise ValueError('quaternion value must be a 4-vector')\n", '', 'R5', 'Quaternion'),
    ('uq-ctor-shape1', 'C15', 'quaternion.py', '            elif isinstance(s, np.ndarray) and s.shape == (4,) and norm:\n                # UnitQuaternion(v) v is a non-unit ndarray(4): normalise it, as for the list form\n                self.data = [base.unit(s)]\n\n            elif isinstance(s, np.ndarray) and s.ndim == 2 and s.shape[1] == 4:', '            elif isinstance(s, np.ndarray) and s.shape[1] == 4:', 'R21', 'UnitQuaternion.__init__'),
    ('se2-ctor-len-first', 'C15', 'pose2d.py', '            elif argcheck.isscalar(x):\n                self.data = [tr.trot2(x, unit=unit)]\n            elif len(x) == 2:', '            elif len(x) == 2:', 'R21', 'SE2.__init__'),
    # ---- rules added after seeded round d
    ('getitem-double-wrap', 'C10', 'smuserlist.py', '            return self.__class__(self.data[i])\n', '            if i < 0:\n                i += len(self)\n            if i >= len(self):\n                raise IndexError("index out of range")\n            return self.__class__(self.data[i])\n', 'RL', '__getitem__'),
    ('se3-inv-batched-Rt', 'C02', 'pose3d.py', '            return SE3([base.trinv(x) for x in self.A], check=False)', '            T = np.array(self.A)\n            Ti = np.zeros(T.shape, dtype=T.dtype)\n            Ti[:, :3, :3] = T[:, :3, :3].transpose(0, 2, 1)\n            Ti[:, :3, 3] = -np.einsum("nij,nj->ni", T[:, :3, :3], T[:, :3, 3])\n            Ti[:, 3, 3] = 1\n            return SE3(list(Ti), check=False)', 'R15', 'SE3.inv'),
    ('se3-inv-batched-Rt-c09', 'C09', 'pose3d.py', '            return SE3([base.trinv(x) for x in self.A], check=False)', '            T = np.array(self.A)\n            Ti = np.zeros(T.shape, dtype=T.dtype)\n            Ti[:, :3, :3] = T[:, :3, :3]\n            Ti[:, :3, 3] = -np.einsum("nji,nj->ni", T[:, :3, :3], T[:, :3, 3])\n            Ti[:, 3, 3] = 1\n            return SE3(list(Ti), check=False)', 'R8', 'SE3.inv'),
    ('tr2jac-transpose-order', 'C13', 'base/transforms3d.py', '        return np.block([[R.T, (base.skew(t)@R).T], [Z, R.T]])', '        return np.block([[R.T, base.skew(t).T @ R.T], [Z, R.T]])', 'R16', 'tr2jac'),
    ('norm-sympy-force', 'C16', 'base/vectors.py', '        return sympy.sqrt(sum)', '        return sympy.powsimp(sympy.sqrt(sum), force=True)', 'R11e', 'norm'),
    ('force-rmul-override', 'C20', 'spatialvector.py', '    def __rmul(right, left):', '    def __rmul__(right, left):', 'R8', 'SpatialForce.__rmul__'),
    ('sv-ctor-share-list', 'C17', 'spatialvector.py', '            self.data = list(value.data)', '            self.data = value.data', 'R5', 'SpatialVector.__init__'),
    ('sv-ctor-nested', 'C20', 'spatialvector.py', '            self.data = list(value.data)', '            self.data = [value.A]', 'R8', 'SpatialVector.__init__'),
    # ---- round e
    ('uq-mul-binop-swapped', 'C12', 'quaternion.py', '            return right.__class__(left.binop(right, base.qqmul))', '            return right.__class__(right.binop(left, base.qqmul))', 'R7o', 'UnitQuaternion.__mul__'),
    ('uq-div-binop-swapped', 'C02', 'quaternion.py', 'return UnitQuaternion(left.binop(right, lambda x, y: base.qqmul(x, base.conj(y))))', 'return UnitQuaternion(right.binop(left, lambda x, y: base.qqmul(x, base.conj(y))))', 'R7o', 'UnitQuaternion.__truediv__'),
    # two cooperating edits (R6d is a premise rule: it is armed only while some reflected * forwards an untested left operand)
    ('pose-mul-homogeneous-vector', 'C08', [
        ('quaternion.py', "        if not base.isscalar(left):\n            raise ValueError('left operand of * must be a scalar')\n        return Quaternion([left * q._A for q in right])", "        return Quaternion([left * q._A for q in right])"),
        ('super_pose.py', '            elif len(left) > 1 and base.isvector(right, left.N):', '            elif len(left) == 1 and left.isSE and base.isvector(right, left.N + 1):\n                return left.A @ base.getvector(right)\n            elif len(left) > 1 and base.isvector(right, left.N):'),
    ], None, None, 'R6d', 'SMPose.__mul__'),
    ('se2-ctor-transl2-fallthrough', 'C07', 'pose2d.py', "            elif len(x) == 2:\n                # SE2([x,y])\n                self.data = [tr.transl2(x)]", "            elif len(x) != 3:\n                # SE2([x,y])\n                self.data = [tr.transl2(x)]", 'R20', 'SE2.__init__'),
    ('se3-ctor-transl-unguarded', 'C07', 'pose3d.py', '            elif base.isvector(x, 3):\n                # SE3( [x, y, z] )', '            elif not isinstance(x, np.ndarray) or x.ndim == 1:\n                # SE3( [x, y, z] )', 'R20', 'SE3.__init__'),
    ('distance-zero-before-parallel', 'C19', 'geom3d.py', '        if l1 | l2:\n            # lines are parallel', '        if abs(l1 * l2) < 10*_eps:\n            l = 0\n        elif l1 | l2:\n            # lines are parallel', 'R23', 'distance'),
    ('momentum-motion-transform', 'C20', 'spatialvector.py', '            if isinstance(right, SpatialM6):\n                return right.__class__([X @ x for x in right.data])', '            if isinstance(right, (SpatialM6, SpatialMomentum)):\n                return right.__class__([X @ x for x in right.data])', 'R16', 'SpatialVector.__rmul__'),
    ('getunit-float-coercion', 'C16', 'base/argcheck.py', '            return [x * math.pi / 180 for x in v]', '            return np.asarray(v, dtype=float) * math.pi / 180', 'R11', 'getunit'),
    ('getunit-astype-nocopy-inplace', 'C17', 'base/argcheck.py', '        if isinstance(v, np.ndarray) or isscalar(v):\n            return v * math.pi / 180', '        if isinstance(v, np.ndarray):\n            v = v.astype(float, copy=False)\n            v *= math.pi / 180\n            return v\n        elif isscalar(v):\n            return v * math.pi / 180', 'R9', 'getunit'),
    ('pow-negative-transpose', 'C02', 'super_pose.py', "        return self.__class__([np.linalg.matrix_power(x, n) for x in self.data], check=False)", "        if n < 0:\n            return self.__class__([np.linalg.matrix_power(x.T, -n) for x in self.data], check=False)\n        return self.__class__([np.linalg.matrix_power(x, n) for x in self.data], check=False)", 'R15c', 'SMPose.__pow__'),
    ('so-seq-matrix-einsum-transposed', 'C06', 'super_pose.py', 'return np.array([x.A @ y for x, y in zip(left, right.T)]).T', "return np.einsum('kij,ik->jk', np.array(left.A), right)", 'R16', 'SMPose.__mul__'),
    ('twist3-exp-vector-theta-no-units', 'C09', 'twist.py', "        else:\n            theta = base.getunit(theta, units)\n\n        if base.isscalar(theta):\n            # theta is a scalar", "        elif base.isscalar(theta):\n            theta = base.getunit(theta, units)\n        else:\n            theta = base.getvector(theta)\n\n        if base.isscalar(theta):\n            # theta is a scalar", 'R10u', 'Twist3.exp'),
    # ---- round f
    ('trlog-halfturn-guard-never-true', 'C02', 'base/transforms3d.py', 'elif abs(np.trace(R) + 1) < 100 * _eps:', 'elif abs(np.trace(R)) + 1 < 100 * _eps:', 'R19', 'trlog'),
    ('trlog-halfturn-guard-dropped', 'C03', 'base/transforms3d.py', 'elif abs(np.trace(R) + 1) < 100 * _eps:', 'elif False:', 'R19', 'trlog'),
    ('uq-angvec-raw-axis', 'C05', 'quaternion.py', 'v=math.sin(theta / 2) * u, norm=False, check=False)', 'v=math.sin(theta / 2) * v, norm=False, check=False)', 'R15c', 'AngVec'),
    ('uq-ne-not-outside', 'C09', 'quaternion.py', 'return left.binop(right, lambda x, y: not base.isequal(x, y, unitq=True), list1=False)', 'return not left.binop(right, lambda x, y: base.isequal(x, y, unitq=True), list1=False)', 'R8h', 'UnitQuaternion.__ne__'),
    ('uq-eq-all', 'C09', 'quaternion.py', 'return left.binop(right, lambda x, y: base.isequal(x, y, unitq=True), list1=False)', 'return all(left.binop(right, lambda x, y: base.isequal(x, y, unitq=True), list1=True))', 'R8h', 'UnitQuaternion.__eq__'),
    ('qexp-guard-on-result', 'C12', 'quaternion.py', '        if abs(self.s) < 100 * _eps:\n            # result will be a unit quaternion', '        if abs(s) < 100 * _eps:\n            # result will be a unit quaternion', 'R16', 'Quaternion.exp'),
    ('qexp-cos-sin-swapped', 'C12', 'quaternion.py', 's = exp_s * math.cos(norm_v)', 's = exp_s * math.sin(norm_v)', 'R16', 'Quaternion.exp'),
    ('qlog-asin', 'C12', 'quaternion.py', 'v = math.acos(self.s / norm) * base.unitvec(self.v)', 'v = math.asin(self.s / norm) * base.unitvec(self.v)', 'R16', 'Quaternion.log'),
    ('so3-eul-branch-drops-unit', 'C15', 'pose3d.py', 'return np.array([base.tr2eul(x, unit=unit, flip=flip) for x in self.A])', 'return np.array([base.tr2eul(x, flip=flip) for x in self.A])', 'R8', 'SO3.eul'),
    ('twist2-exp-falsy-theta', 'C18', 'twist.py', "        if theta is None:\n            theta = 1\n        else:\n            theta = base.getunit(theta, units)\n\n        if base.isscalar(theta):\n            return SE2(", "        if not theta:\n            theta = 1\n        else:\n            theta = base.getunit(theta, units)\n\n        if base.isscalar(theta):\n            return SE2(", 'R10n', 'Twist2.exp'),
    ('adjoint-block-order', 'C20', 'base/transforms3d.py', '[R, base.skew(t) @ R]', '[R, R @ base.skew(t)]', 'R16', 'adjoint'),
    # ---- mechanical-mutant misses
    ('se3-t-element-disagree', 'C09', 'pose3d.py', 'return np.array([x[:3, 3] for x in self.A])', 'return np.array([x[:3, 2] for x in self.A])', 'R8', 'SE3.t'),
    ('tr2rpy-pivot-list', 'C05', 'base/transforms3d.py', 'k = np.argmax(np.abs([R[0, 0], R[0, 1], R[1, 2], R[2, 2]]))', 'k = np.argmax(np.abs([R[0, 0], R[0, 1], R[1, 1], R[2, 2]]))', 'R19', 'tr2rpy'),
    ('tr2rpy-singular-test-element', 'C05', 'base/transforms3d.py', 'if abs(abs(R[0, 2]) - 1) < 10 * _eps:', 'if abs(abs(R[0, 1]) - 1) < 10 * _eps:', 'R19', 'tr2rpy'),
    ('tr2rpy-index-out-of-range', 'C05', 'base/transforms3d.py', 'rpy[2] = math.atan2(R[0, 2], R[2, 2])', 'rpy[2] = math.atan2(R[0, 3], R[2, 2])', 'R19', 'tr2rpy'),
    ('binop-both-left', 'C09', 'smuserlist.py', 'return [op(left._A, right)]', 'return [op(left._A, left)]', 'R7', 'binop'),
    ('twist2-rmul-lambda-one-arg', 'C09', 'twist.py', 'return Twist2(self.binop(left, lambda x, y: x * y))', 'return Twist2(self.binop(left, lambda x, y: x * x))', 'R7o', 'Twist2.__rmul__'),
    ('se2-ctor-angle-from-y', 'C15', 'pose2d.py', 'self.data = [tr.trot2(x, unit=unit)]', 'self.data = [tr.trot2(y, unit=unit)]', 'R21', 'SE2.__init__'),
    ('interp-endpoints-swapped', 'C11', 'super_pose.py', 'base.trinterp(start, x, s=s[0])', 'base.trinterp(x, start, s=s[0])', 'R14', 'SMPose.interp'),
    ('mul-seq-matrix-rows', 'C06', 'super_pose.py', 'left.isSE and right.shape[0] == left.N and len(left) == right.shape[1]', 'left.isSE and right.shape[0] == left.N and len(left) == right.shape[0]', 'R16', 'SMPose.__mul__'),
    ('se3-so3-check-ignored', 'C07', 'pose3d.py', 'elif base.isrot(R, check=check):', 'elif base.isrot(R):', 'R10d', 'SE3.SO3'),
    ('eulervec-args-reordered', 'C04', 'pose3d.py', 'return cls(base.angvec2tr(theta, w), check=False)', 'return cls(base.angvec2tr(w, theta), check=False)', 'R13', 'SE3.EulerVec'),
    ('oa2r-default-axis', 'C01', 'base/transforms3d.py', '    o = np.cross(a, n)\n    R = np.stack((base.unitvec(n), base.unitvec(o), base.unitvec(a)), axis=1)', '    o = np.cross(a, n)\n    R = np.stack((base.unitvec(n), base.unitvec(o), base.unitvec(a)))', 'R16', 'oa2r'),
    ('se3-twist3-no-twist-option', 'C03', 'pose3d.py', 'return Twist3(self.log(twist=True))', 'return Twist3(self.log())', 'R21', 'SE3.Twist3'),
    ('distance-antiparallel', 'C19', 'geom3d.py', 'l1.v - l2.v * np.dot(l1.w, l2.w) / np.dot(l2.w, l2.w)', 'l1.v - l2.v * np.linalg.norm(l1.w) / np.linalg.norm(l2.w)', 'R23', 'distance'),
    # ---- round j
    ('pow-transpose-local-list', 'C01', 'super_pose.py', "        return self.__class__([np.linalg.matrix_power(x, n) for x in self.data], check=False)", "        data = self.data\n        if n < 0:\n            data = [x.T for x in data]\n            n = -n\n        return self.__class__([np.linalg.matrix_power(x, n) for x in data], check=False)", 'R15c', 'SMPose.__pow__'),
    ('udq-dual-order', 'C06', 'DualQuaternion.py', 'self.dual = 0.5 * D * S', 'self.dual = 0.5 * S * D', 'R22', 'UnitDualQuaternion.__init__'),
    ('udq-se3-order', 'C06', 'DualQuaternion.py', 't = 2 * self.dual * self.real.conj()', 't = 2 * self.real.conj() * self.dual', 'R22', 'UnitDualQuaternion.SE3'),
    ('udq-se3-order-c04', 'C04', 'DualQuaternion.py', 't = 2 * self.dual * self.real.conj()', 't = 2 * self.real.conj() * self.dual', 'R13', 'UnitDualQuaternion.SE3'),
    ('udq-se3-no-factor', 'C04', 'DualQuaternion.py', 't = 2 * self.dual * self.real.conj()', 't = self.dual * self.real.conj()', 'R13', 'UnitDualQuaternion.SE3'),
    ('qrmul-no-scalar-test', 'C08', 'quaternion.py', "        if not base.isscalar(left):\n            raise ValueError('left operand of * must be a scalar')\n        return Quaternion([left * q._A for q in right])", "        return Quaternion([left * q._A for q in right])", 'R6g', 'Quaternion.__rmul__'),
    ('uq-truediv-guard-direction', 'C08', 'quaternion.py', "        if isinstance(right, UnitQuaternion):\n            return UnitQuaternion(left.binop(right, lambda x, y: base.qqmul(x, base.conj(y))))", "        if isinstance(left, right.__class__):\n            return UnitQuaternion(left.binop(right, lambda x, y: base.qqmul(x, base.conj(y))))", 'R6s', 'UnitQuaternion.__truediv__'),
    ('twist-mul-fastpath-swapped', 'C09', 'twist.py', "            return Twist3(left.binop(right, lambda x, y: base.trlog(base.trexp(x) @ base.trexp(y), twist=True)))", "            if len(left) > 1 and len(right) == 1:\n                Tr = base.trexp(right.S)\n                return Twist3([base.trlog(Tr @ base.trexp(x), twist=True) for x in left.data])\n            return Twist3(left.binop(right, lambda x, y: base.trlog(base.trexp(x) @ base.trexp(y), twist=True)))", 'R8f', 'Twist3.__mul__'),
    ('exp-isprismatic-truth', 'C18', 'twist.py', "            return SE3([base.trexp(S * theta) for S in self.data])", "            if self.isprismatic:\n                return SE3(base.transl(self.v * theta))\n            return SE3([base.trexp(S * theta) for S in self.data])", 'R8t', 'Twist3.exp'),
    ('exp-isprismatic-truth-c09', 'C09', 'twist.py', "            return SE3([base.trexp(S * theta) for S in self.data])", "            if self.isprismatic:\n                return SE3(base.transl(self.v * theta))\n            return SE3([base.trexp(S * theta) for S in self.data])", 'R8t', 'Twist3.exp'),
    ('tr2delta-rt2tr-world-frame', 'C13', 'base/transforms3d.py', "        Td = trinv(T0) @ T1", "        Td = base.rt2tr(T1[:3, :3] @ T0[:3, :3].T, T0[:3, :3].T @ (T1[:3, 3] - T0[:3, 3]))", 'R16', 'tr2delta'),
    # ---- round k
    ('extend-shares-list', 'C10', 'smuserlist.py', "        super().extend(iterable.data)", "        if len(self.data) == 0:\n            self.data = iterable.data\n        else:\n            super().extend(iterable.data)", 'RL', 'SMUserList.extend'),
    ('arghandler-mixed-no-none-test', 'C07', 'smuserlist.py', "                assert all(map(lambda x: type(x) == type(self), arg)), 'elements of list are incorrect type'\n                self.data = [x.A for x in arg]", "                self.data = [x.A if type(x) == type(self) else self._import(x, check=check) for x in arg]", 'R5', 'arghandler'),
    ('contains-layout-by-one-dim', 'C19', 'geom3d.py', "        elif base.ismatrix(x, (3,None)):\n            return [", "        elif base.ismatrix(x, (3,None)) or base.ismatrix(x, (None,3)):\n            if x.shape[1] == 3:\n                x = x.T\n            return [", 'R20t', 'Plucker.contains'),
    ('pose-mul-layout-by-one-dim', 'C09', 'super_pose.py', "                # SO(n) x matrix\n                return left.A @ right\n", "                # SO(n) x matrix\n                P = right.T if right.shape[1] == left.N else right\n                return left.A @ P\n", 'R20t', 'SMPose.__mul__'),
    ('rot2-round-under-deg', 'C15', 'base/transforms2d.py', "    theta = base.getunit(theta, unit)\n    ct = base.sym.cos(theta)\n    st = base.sym.sin(theta)\n", "    right = unit == 'deg' and theta % 90 == 0\n    theta = base.getunit(theta, unit)\n    ct = base.sym.cos(theta)\n    st = base.sym.sin(theta)\n    if right:\n        ct, st = round(ct), round(st)\n", 'R10v', 'rot2'),
    ('uq-mul-multivalued-wrong-class', 'C08', 'quaternion.py', "            return right.__class__(left.binop(right, base.qqmul))", "            if len(left) > 1 or len(right) > 1:\n                return UnitQuaternion(left.binop(right, base.qqmul))\n            return right.__class__(left.binop(right, base.qqmul))", 'R6', 'UnitQuaternion.__mul__'),
    ('copy-dtype-product-store', 'C01', 'super_pose.py', "        if base.isscalar(left):\n            return right.__mul__(left)\n        else:\n            return NotImplemented", "        def rotate(R, T):\n            RT = T.copy()\n            RT[:2, :] = R @ T[:2, :]\n            return RT\n        if base.isscalar(left):\n            return right.__mul__(left)\n        else:\n            return NotImplemented", 'R11c', 'rotate'),
    ('tr2delta-fastpath-no-transpose', 'C13', 'base/transforms3d.py', "        Td = trinv(T0) @ T1\n", "        if np.array_equal(T0[:3, :3], T1[:3, :3]):\n            return np.r_[T0[:3, :3] @ (T1[:3, 3] - T0[:3, 3]), 0, 0, 0]\n        Td = trinv(T0) @ T1\n", 'R16', 'tr2delta'),
    ('twist-mul-sum-arm', 'C02', 'twist.py', "            return Twist3(left.binop(right, lambda x, y: base.trlog(base.trexp(x) @ base.trexp(y), twist=True)))", "            def compose(x, y):\n                if base.iszerovec(np.cross(x[3:], y[3:])):\n                    return x + y\n                return base.trlog(base.trexp(x) @ base.trexp(y), twist=True)\n            return Twist3(left.binop(right, compose))", 'R15', 'Twist3.__mul__'),
    ('uq-mul-columns-vec3-with-s', 'C06', 'quaternion.py', "                return np.array([base.qvmul(left._A, x) for x in right.T]).T", "                s, u = left.s, left.vec3\n                t = 2 * np.cross(u, right, axis=0)\n                return right + s * t + np.cross(u, t, axis=0)", 'R16s', 'UnitQuaternion.__mul__'),
]



def _run_twin(tw, base_root):
    tid, pid, rel, old, new, rule, subj = tw
    d = tempfile.mkdtemp(prefix='twin_')
    try:
        shutil.copytree(os.path.join(base_root, 'spatialmath'), os.path.join(d, 'spatialmath'),
                        ignore=shutil.ignore_patterns('__pycache__'))
        edits = rel if isinstance(rel, (list, tuple)) else [(rel, old, new)]
        for (rel_, old_, new_) in edits:
            p = os.path.join(d, 'spatialmath', rel_)
            with open(p, encoding='utf-8') as fh:
                s = fh.read()
            if s.count(old_) != 1:
                return (tid, pid, 'skipped', 'edit site not found exactly once (%d)' % s.count(old_))
            s2 = s.replace(old_, new_)
            try:
                import warnings
                with warnings.catch_warnings():
                    warnings.simplefilter('ignore')
                    compile(s2, p, 'exec')
            except SyntaxError as e:
                return (tid, pid, 'skipped', 'twin does not compile: %s' % e)
            with open(p, 'w', encoding='utf-8') as fh:
                fh.write(s2)
        env = dict(os.environ)
        env['VERIF_REPO'] = d
        env['VERIF_EVIDENCE_DIR'] = os.path.join(d, 'evidence')
        r = subprocess.run([sys.executable, '-B', '-m', 'sa.cli', pid, '--tier', 'quick'], cwd=VERIF, env=env,
                           capture_output=True, text=True, timeout=300)
        out = r.stdout
        hit = [l for l in out.splitlines() if ('[%s/' % rule) in l and subj in l]
        hit2 = [l for l in out.splitlines() if ('[%s' % rule) in l and subj in l]
        if r.returncode == 1 and (hit or hit2):
            return (tid, pid, 'fired', (hit or hit2)[0][:200])
        return (tid, pid, 'MISSED', 'exit %d; no [%s/...%s...] line. output tail: %s' % (r.returncode, rule, subj, out[-400:]))
    finally:
        shutil.rmtree(d, ignore_errors=True)


def run_twins(pid=None, jobs=16):
    base_root = repo_root()
    tw = [t for t in TWINS if pid is None or t[1] == pid]
    with ThreadPoolExecutor(max_workers=jobs) as ex:
        res = list(ex.map(lambda t: _run_twin(t, base_root), tw))
    return res


def main(pid=None):
    res = run_twins(pid)
    bad = 0
    for (tid, p, st, msg) in res:
        print('%-8s %-4s %-28s %s' % (st, p, tid, msg if st != 'fired' else msg[:110]))
        if st in ('MISSED', 'skipped'):
            bad += 1
    print('selftest: %d twins, %d fired, %d skipped, %d missed' % (
        len(res), sum(1 for r in res if r[2] == 'fired'), sum(1 for r in res if r[2] == 'skipped'), bad))
    return 2 if bad else 0
