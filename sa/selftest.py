"""Sensitivity witnesses ("broken twins"): each twin is one small edit of a scratch copy of the CURRENT /repo
source that breaks one rule instance while the code still compiles.  The property's check, run on the twin, must
exit 1 and name the expected rule and subject; run on the unedited copy it must stay clean.

Scratch copies live under tempfile.mkdtemp() and are removed as soon as the verdict is read."""
import json
import os
import shutil
import subprocess
import sys
import tempfile
from concurrent.futures import ThreadPoolExecutor

from .model import repo_root
from .report import VERIF

# (id, property, relative file, old text, new text, expected rule, expected subject substring)
TWINS = [
    # ---- C07
    ('isR-gram-det', 'C07', 'base/transformsNd.py', 'and np.linalg.det(R) > 0', 'and np.linalg.det(R@R.T) > 0', 'R4', 'isR'),
    ('isR-no-orth', 'C07', 'base/transformsNd.py', 'return np.linalg.norm(R@R.T - np.eye(R.shape[0])) < tol * _eps \\\n        and np.linalg.det(R) > 0', 'return np.linalg.det(R) > 0', 'R4', 'isR'),
    ('ishom-no-lastrow', 'C07', 'base/transforms3d.py', '(base.isR(T[:3, :3], tol=tol) and np.all(T[3, :] == np.array([0, 0, 0, 1])))', '(base.isR(T[:3, :3], tol=tol))', 'R4', 'ishom'),
    ('arghandler-none', 'C07', 'smuserlist.py', '                if any(x is None for x in data):\n                    return False\n', '', 'R5', 'arghandler'),
    ('so3-ctor-nocheck', 'C07', 'pose3d.py', 'if not super().arghandler(arg, check=check):', 'if not super().arghandler(arg, check=False):', 'R5', 'SO3'),
    ('se3-ctor-fallthrough', 'C07', 'pose3d.py', "            self.data = [base.transl(x, y, z)]\n\n        else:\n            raise ValueError('bad arguments to constructor')", '            self.data = [base.transl(x, y, z)]', 'R3', 'SE3'),
    ('isunit-zerovec', 'C07', 'base/quaternions.py', 'return base.isunitvec(q, tol=tol)', 'return base.iszerovec(q, tol=tol)', 'R4', 'isunit'),
    ('import-unguarded', 'C07', 'smuserlist.py', 'if not check or self.isvalid(x, check=check):\n            return x', 'if True:\n            return x', 'R5', '_import'),
    # ---- C08
    ('op2-fallthrough', 'C08', 'super_pose.py', "                return [op(x, right) for x in left.A]\n        else:\n            raise ValueError('bad operands')", '                return [op(x, right) for x in left.A]', 'R6', '_op2'),
    ('rmul-unguarded', 'C08', 'super_pose.py', '        if base.isscalar(left):\n            return right.__mul__(left)\n        else:\n            return NotImplemented', '        return right.__mul__(left)', 'R6', '__rmul__'),
    ('userlist-add-back', 'C08', 'smuserlist.py', '    def __add__(self, other):\n        return NotImplemented\n\n    __radd__ = __add__\n', '', 'R6', 'UserList.__add__'),
    ('quat-mul-wrongclass', 'C08', 'quaternion.py', '            return Quaternion(left.binop(right, base.qqmul))', '            return UnitQuaternion(left.binop(right, base.qqmul))', 'R6', 'Quaternion.__mul__'),
    ('inertia-add-oneoperand', 'C08', 'spatialvector.py', 'return SpatialInertia(left.A + right.A)', 'return SpatialInertia(left.A + left.A)', 'R7', 'SpatialInertia.__add__'),
    ('dq-mul-dup-isinstance', 'C08', 'DualQuaternion.py', 'isinstance(left, UnitDualQuaternion) and isinstance(right, UnitDualQuaternion)', 'isinstance(left, UnitDualQuaternion) and isinstance(left, UnitDualQuaternion)', 'R7', 'DualQuaternion.__mul__'),
    # ---- C09
    ('binop-swap', 'C09', 'smuserlist.py', '                # singleton * non-singleton\n                return [op(left.A, x) for x in right.A]\n        else:', '                # singleton * non-singleton\n                return [op(x, left.A) for x in right.A]\n        else:', 'R7', 'binop'),
    ('op2-zip-noguard', 'C09', 'super_pose.py', '                elif len(left) == len(right):\n                    #print(\'== NxN\')', "                elif left.shape == right.shape:\n                    #print('== NxN')", 'R7', '_op2'),
    ('se3-t-noguard', 'C09', 'pose3d.py', '        if len(self) == 1:\n            return self.A[:3, 3]\n        else:\n            return np.array([x[:3, 3] for x in self.A])', '        return self.A[:3, 3]', 'R8', 'SE3.t'),
    ('so3-rpy-branch-kw', 'C09', 'pose3d.py', 'return np.array([base.tr2rpy(x, unit=unit, order=order) for x in self.A]).T', 'return np.array([base.tr2rpy(x, unit=unit) for x in self.A]).T', 'R8', 'SO3.rpy'),
    ('twist-isprismatic-data', 'C09', 'twist.py', 'return [base.iszerovec(x.w) for x in self]', 'return [base.iszerovec(x.w) for x in self.data]', 'R8', 'isprismatic'),
    # ---- C10
    ('append-noguard', 'C10', 'smuserlist.py', '        if not type(self) == type(item):\n            raise ValueError("can\'t append different type of object")\n        if len(item) > 1:\n            raise ValueError("can\'t append a multivalued instance - use extend")\n        super().append(item.A)', '        if len(item) > 1:\n            raise ValueError("can\'t append a multivalued instance - use extend")\n        super().append(item.A)', 'RL', 'append'),
    ('insert-guard-after', 'C10', 'smuserlist.py', '        if len(item) > 1:\n            raise ValueError("can\'t insert a multivalued instance - must have len() == 1")\n        super().insert(i, item._A)', '        super().insert(i, item._A)\n        if len(item) > 1:\n            raise ValueError("can\'t insert a multivalued instance - must have len() == 1")', 'RL', 'insert'),
    ('setitem-isinstance', 'C10', 'smuserlist.py', '        if not type(self) == type(value):', '        if not isinstance(value, type(self)):', 'RL', '__setitem__'),
    ('getitem-handslice', 'C10', 'smuserlist.py', 'range(*i.indices(len(self)))', 'range(i.start or 0, i.stop or len(self), i.step or 1)', 'RL', '__getitem__'),
    ('extend-A', 'C10', 'smuserlist.py', 'super().extend(iterable.data)', 'super().extend(iterable._A)', 'RL', 'extend'),
    ('alloc-alias', 'C10', 'smuserlist.py', 'x.data = [cls._identity() for i in range(n)]', 'x.data = [cls._identity()] * n', 'RL', 'Alloc'),
    # ---- C15
    ('so2-double-deg', 'C15', 'pose2d.py', 'self.data = [tr.rot2(x, unit=unit) for x in argcheck.getvector(arg)]', 'self.data = [tr.rot2(x, unit=unit) for x in argcheck.getunit(argcheck.getvector(arg), unit)]', 'R10u', 'SO2.__init__'),
    ('se3-rx-drop-unit', 'C15', 'pose3d.py', 'return cls([base.trotx(x, t=t, unit=unit) for x in base.getvector(theta)], check=False)', 'return cls([base.trotx(x, t=t) for x in base.getvector(theta)], check=False)', 'R10d', 'SE3.Rx'),
    ('qnorm-no-getvector', 'C15', 'base/quaternions.py', '    q = base.getvector(q, 4)\n    return np.linalg.norm(q)', '    return math.sqrt(q[0]**2 + q[1]**2 + q[2]**2 + q[3]**2)', 'R10a', 'qnorm'),
    ('pure-no-dim', 'C15', 'base/quaternions.py', '    v = base.getvector(v, 3)\n    return np.r_[0, v]', '    v = base.getvector(v)\n    return np.r_[0, v]', 'R10b', 'pure'),
    ('rpy2r-no-else', 'C15', 'base/transforms3d.py', "        R = roty(angles[2]) @ rotx(angles[1]) @ rotz(angles[0])\n    else:\n        raise ValueError('Invalid angle order')", '        R = roty(angles[2]) @ rotx(angles[1]) @ rotz(angles[0])\n    else:\n        R = rotz(angles[2]) @ roty(angles[1]) @ rotx(angles[0])', 'R10o', 'rpy2r'),
    ('tr2eul-no-deg', 'C15', 'base/transforms3d.py', "    if unit == 'deg':\n        eul *= 180 / math.pi\n\n    return eul", '    return eul', 'R10', 'tr2eul'),
    # ---- C16
    ('rotx-math-cos', 'C16', 'base/transforms3d.py', "    ct = base.sym.cos(theta)\n    st = base.sym.sin(theta)\n    R = np.array([\n        [1, 0, 0],", "    ct = math.cos(theta)\n    st = base.sym.sin(theta)\n    R = np.array([\n        [1, 0, 0],", 'R11', 'rotx'),
    ('getvector-ndarray-dtype', 'C16', 'base/argcheck.py', "        if v.dtype.kind == 'O':\n            dt = 'O'\n", '', 'R11d', 'getvector'),
    ('trinv-float-alloc', 'C16', 'base/transforms3d.py', 'Ti = np.zeros((4,4), dtype=T.dtype)', 'Ti = np.zeros((4,4))', 'R11a', 'trinv'),
    ('delta-checked', 'C16', 'pose3d.py', 'return cls(base.delta2tr(d), check=False)', 'return cls(base.delta2tr(d))', 'R11c', 'SE3.Delta'),
    # ---- C17
    ('trinv-inplace', 'C17', 'base/transforms3d.py', '    Ti = np.zeros((4,4), dtype=T.dtype)\n    Ti[:3, :3] = R.T', '    Ti = T\n    Ti[:3, :3] = R.T', 'R9', 'trinv'),
    ('rpy2r-angles-inplace', 'C17', 'base/transforms3d.py', "    angles = base.getunit(angles, unit)\n\n    if order == 'xyz' or order == 'arm':", "    angles = base.getunit(angles, unit)\n    angles *= 1.0\n\n    if order == 'xyz' or order == 'arm':", 'R9', 'rpy2r'),
    ('interp-q1-inplace', 'C17', 'quaternion.py', '                q1 = - q1\n                dot = -dot', '                q1 *= -1\n                dot = -dot', 'R9', 'UnitQuaternion.interp'),
    ('pow-matrix-power-inplace', 'C17', 'super_pose.py', 'return self.__class__([np.linalg.matrix_power(x, n) for x in self.data], check=False)', 'out = []\n        for x in self.data:\n            T = np.linalg.matrix_power(x, n)\n            T[0, 0] = T[0, 0]\n            out.append(T)\n        return self.__class__(out, check=False)', 'R9', '__pow__'),
    ('mul-iadd-alias', 'C17', 'super_pose.py', '        return left.__mul__(right)\n\n    def __truediv__', '        left.data[0] = left.data[0] @ right.A\n        return left\n\n    def __truediv__', 'R9', '__imul__'),
    ('rand-in-pure', 'C17', 'base/vectors.py', '    v = getvector(v)\n    n = norm(v)\n', '    v = getvector(v) + 0 * np.random.rand()\n    n = norm(v)\n', 'R9d', 'unitvec'),
]


def _run_twin(tw, base_root):
    tid, pid, rel, old, new, rule, subj = tw
    d = tempfile.mkdtemp(prefix='twin_')
    try:
        shutil.copytree(os.path.join(base_root, 'spatialmath'), os.path.join(d, 'spatialmath'),
                        ignore=shutil.ignore_patterns('__pycache__'))
        p = os.path.join(d, 'spatialmath', rel)
        with open(p, encoding='utf-8') as fh:
            s = fh.read()
        if s.count(old) != 1:
            return (tid, pid, 'skipped', 'edit site not found exactly once (%d)' % s.count(old))
        s2 = s.replace(old, new)
        try:
            import warnings
            with warnings.catch_warnings():
                warnings.simplefilter('ignore')
                compile(s2, p, 'exec')
        except SyntaxError as e:
            return (tid, pid, 'skipped', 'twin does not compile: %s' % e)
        with open(p, 'w', encoding='utf-8') as fh:
            fh.write(s2)
        env = dict(os.environ)
        env['VERIF_REPO'] = d
        env['VERIF_EVIDENCE_DIR'] = os.path.join(d, 'evidence')
        r = subprocess.run([sys.executable, '-B', '-m', 'sa.cli', pid, '--tier', 'quick'], cwd=VERIF, env=env,
                           capture_output=True, text=True, timeout=300)
        out = r.stdout
        hit = [l for l in out.splitlines() if ('[%s/' % rule) in l and subj in l]
        hit2 = [l for l in out.splitlines() if ('[%s' % rule) in l and subj in l]
        if r.returncode == 1 and (hit or hit2):
            return (tid, pid, 'fired', (hit or hit2)[0][:200])
        return (tid, pid, 'MISSED', 'exit %d; no [%s/...%s...] line. output tail: %s' % (r.returncode, rule, subj, out[-400:]))
    finally:
        shutil.rmtree(d, ignore_errors=True)


def run_twins(pid=None, jobs=16):
    base_root = repo_root()
    tw = [t for t in TWINS if pid is None or t[1] == pid]
    with ThreadPoolExecutor(max_workers=jobs) as ex:
        res = list(ex.map(lambda t: _run_twin(t, base_root), tw))
    return res


def main(pid=None):
    res = run_twins(pid)
    bad = 0
    for (tid, p, st, msg) in res:
        print('%-8s %-4s %-28s %s' % (st, p, tid, msg if st != 'fired' else msg[:110]))
        if st == 'MISSED':
            bad += 1
    print('selftest: %d twins, %d fired, %d skipped, %d missed' % (
        len(res), sum(1 for r in res if r[2] == 'fired'), sum(1 for r in res if r[2] == 'skipped'), bad))
    return 2 if bad else 0
