"""Source normalisation applied to every module AST right after parsing (line numbers are kept).

Only rewrites whose result is semantically identical Python are applied; they remove surface variation that a harmless
refactoring introduces, so that every rule sees one form:

  N1  statement-level conditional expressions
          return A if c else B          ->   if c: return A
                                             else: return B
          x = A if c else B             ->   if c: x = A
                                             else: x = B
  N1b S(.. A if c else B ..)            ->   if c: S(.. A ..)
                                             else: S(.. B ..)         (the single, unconditionally evaluated conditional expression
                                                                       of a return / assignment value)
  N13 a call of a small private module-level helper whose body is assignments / ifs / returns (no loop, no raise) is replaced by
      the helper's result expression with the arguments in place of the parameters
  N14 a nested one-expression function / a lambda bound once to a local name is put in place at its uses (g(a, b) -> its body with the
      arguments; a bare g -> the lambda)
  N15 name = a.b.c bound once (a and the attributes b, c not stored to in the function) -> every read of name is a.b.c
  N2  membership in a display of alternatives
          e in (a, b, c)                ->   e == a or e == b or e == c
          e not in (a, b)               ->   e != a and e != b
      (e a name / attribute / subscript, so evaluating it several times is harmless)
  N3  function form of the matrix product
          np.matmul(a, b) / matmul(a, b)  ->   a @ b
  N3b np.transpose(a), a.transpose()     ->   a.T
  N6  np.concatenate((a, b)) of a display, default axis   ->   np.r_[a, b]   (hstack is NOT rewritten: it differs for 2-D)
  N7  xs = []                                 xs = [E for t in it]
      for t in it: xs.append(E)        ->
      also when the loop is the first mention of xs in an arm of an if-chain that follows `xs = []` (xs is still empty there)
  N8  if c: xs = [..]                         if c: xs = [..]; return f(xs)
      else: xs = [..]                  ->     else: xs = [..]; return f(xs)
      return f(xs)
      (tail duplication; only when an arm ends by assigning a list display / comprehension to a name the return mentions)
  N8b if c: f = A                             if c: return A(x)
      else: f = B                      ->     else: return B(x)       f read only as a callee in the (short, exiting) tail
      return f(x)
  N9  xs = [E for ..]; S(xs)           ->     S([E for ..])      xs a single-use local, S the next statement
      x = a.b; return S(x)             ->     return S(a.b)
      x = E; return x                  ->     return E
      x = g(..); return F(x, ..)       ->     return F(g(..), ..)       (x a direct argument of the returned call, not read in g(..))
      (operands of S evaluated before xs are evaluated after it instead: no rule depends on the order of pure operands)
  N10 [E(t) for t in (a, b, c)]          ->    [E(a), E(b), E(c)]
  N11 if not c: A                            if c: B
      else: B                          ->    else: A           (B not an elif chain)
  N18 calls of the package's plain functions (unique name) pass parameters without a default positionally and parameters with a default
      by keyword: f(x, 3, 'deg') and f(x, dim=3, unit='deg') are one call
  N20 if c: return A; <rest>            ->    if c: return A else: <rest>        (the arm always returns; raising guards stay flat)
  N21 else: (if c: raise E); <rest>     ->    elif not c: <rest> else: raise E   (a chain gets its final `else: raise` back)
  N22 type(x)                            ->    x.__class__
  N23 isinstance(x, A) or isinstance(x, B) ->  isinstance(x, (A, B))
  N24 if a: (if b: X)                    ->    if a and b: X        (neither has an else)
  N19 in the test of if / while / assert negations are pushed inwards: not a == b -> a != b, not (a or b) -> not a and not b
  N17 `pass` next to other statements is dropped (an `else: pass; if ..` is the elif it was)
  N4  negated disjunction / conjunction in a test position is left to the fact splitter (cfg._split handles polarity)

Set VERIF_NO_NORMALIZE=1 to analyse the raw AST (development aid)."""
import ast
import os


class _Normalise(ast.NodeTransformer):
    # ---- N1
    def _split_ifexp(self, st, value, make):
        test, a, b = value.test, value.body, value.orelse
        body = [make(a)]
        orelse = [make(b)]
        node = ast.If(test=test, body=body, orelse=orelse)
        ast.copy_location(node, st)
        for x in body + orelse:
            ast.copy_location(x, st)
        ast.fix_missing_locations(node)
        # nested conditional expressions in the arms
        return self.visit(node)

    def visit_Return(self, st):
        self.generic_visit(st)
        if isinstance(st.value, ast.IfExp):
            return self._split_ifexp(st, st.value, lambda v: ast.Return(value=v))
        if st.value is not None:
            lifted = self._lift(st, st.value, lambda v: ast.Return(value=v))
            if lifted is not None:
                return lifted
        return st

    def visit_Assign(self, st):
        self.generic_visit(st)
        if all(isinstance(t, (ast.Name, ast.Attribute)) for t in st.targets):
            import copy
            make = lambda v: ast.Assign(targets=[copy.deepcopy(t) for t in st.targets], value=v)
            if isinstance(st.value, ast.IfExp):
                return self._split_ifexp(st, st.value, make)
            lifted = self._lift(st, st.value, make)
            if lifted is not None:
                return lifted
        return st

    # ---- N1b  S(.. A if c else B ..)  ->  if c: S(.. A ..) else: S(.. B ..)   for the one conditional expression of a return /
    #           assignment value that is evaluated unconditionally (not under and / or / another conditional / a lambda / a comprehension)
    def _lift(self, st, value, make):
        import copy
        found = []

        def scan(x, guarded):
            if isinstance(x, ast.IfExp):
                found.append((x, guarded))
                return
            if isinstance(x, (ast.Lambda, ast.ListComp, ast.GeneratorExp, ast.SetComp, ast.DictComp)):
                for y in ast.walk(x):
                    if isinstance(y, ast.IfExp):
                        found.append((y, True))
                return
            if isinstance(x, ast.BoolOp):
                for i, v in enumerate(x.values):
                    scan(v, guarded or i > 0)
                return
            for ch in ast.iter_child_nodes(x):
                scan(ch, guarded)
        scan(value, False)
        if len(found) != 1 or found[0][1]:
            return None
        target = found[0][0]
        # build the two variants by replacing the IfExp node (identity) in deep copies
        def variant(branch):
            memo = {}
            v = copy.deepcopy(value, memo)
            t2 = memo[id(target)]
            if v is t2:
                return copy.deepcopy(branch)
            return _ReplaceNode(t2, copy.deepcopy(branch)).visit(v)
        va, vb = variant(target.body), variant(target.orelse)
        node = ast.If(test=target.test, body=[make(va)], orelse=[make(vb)])
        ast.copy_location(node, st)
        for x in node.body + node.orelse:
            ast.copy_location(x, st)
        ast.fix_missing_locations(node)
        return self.visit(node)

    # ---- N11  if not c: A else: B   ->   if c: B else: A      (plain else only: an elif chain keeps its shape)
    def visit_If(self, st):
        self.generic_visit(st)
        from .boolfold import _push_not
        # N24  if a: (if b: X)   ->   if a and b: X      (neither has an else)
        if not st.orelse and len(st.body) == 1 and isinstance(st.body[0], ast.If) and not st.body[0].orelse:
            inner = st.body[0]
            st.test = ast.BoolOp(op=ast.And(), values=[st.test, inner.test])
            ast.copy_location(st.test, st)
            ast.fix_missing_locations(st.test)
            st.body = inner.body
        if isinstance(st.test, ast.UnaryOp) and isinstance(st.test.op, ast.Not) and st.orelse and \
                not (len(st.body) == 1 and isinstance(st.body[0], ast.If)):
            chain = len(st.orelse) == 1 and isinstance(st.orelse[0], ast.If)
            # with an elif chain behind it only a negated GUARD is turned round (if not c: raise / return .. elif ..), so that the
            # positive case carries the chain
            if not chain or (len(st.body) == 1 and isinstance(st.body[0], (ast.Raise, ast.Return))):
                st.test, st.body, st.orelse = st.test.operand, st.orelse, st.body
        # N19 (after N11, which needs the leading `not`): in a test position negations are pushed inwards: not a == b -> a != b,
        # not (a or b) -> not a and not b, not not a -> a
        st.test = ast.copy_location(_push_not(st.test), st.test)
        if isinstance(st.test, ast.UnaryOp) and isinstance(st.test.op, ast.Not) and st.orelse and \
                not (len(st.body) == 1 and isinstance(st.body[0], ast.If)) and not (len(st.orelse) == 1 and isinstance(st.orelse[0], ast.If)):
            st.test, st.body, st.orelse = st.test.operand, st.orelse, st.body       # `not not c` uncovered a plain negation
        return st

    # ---- N10  [E(t) for t in (a, b, c)]   ->   [E(a), E(b), E(c)]     (t a plain name, a, b, c free of t)
    def visit_ListComp(self, n):
        self.generic_visit(n)
        if len(n.generators) == 1:
            g = n.generators[0]
            if isinstance(g.target, ast.Name) and not g.ifs and not g.is_async and isinstance(g.iter, (ast.Tuple, ast.List)) \
                    and 1 <= len(g.iter.elts) <= 6 and not any(isinstance(x, ast.Starred) for x in g.iter.elts) \
                    and not any(isinstance(x, (ast.ListComp, ast.GeneratorExp, ast.SetComp, ast.DictComp, ast.Lambda, ast.NamedExpr)) for x in ast.walk(n.elt)):
                import copy
                elts = []
                for x in g.iter.elts:
                    elts.append(_SubstName(g.target.id, x).visit(copy.deepcopy(n.elt)))
                node = ast.List(elts=elts, ctx=ast.Load())
                ast.copy_location(node, n)
                ast.fix_missing_locations(node)
                return node
        return n

    def visit_While(self, st):
        self.generic_visit(st)
        from .boolfold import _push_not
        st.test = ast.copy_location(_push_not(st.test), st.test)
        return st

    def visit_Assert(self, st):
        self.generic_visit(st)
        from .boolfold import _push_not
        st.test = ast.copy_location(_push_not(st.test), st.test)
        return st

    # ---- N2
    def visit_Compare(self, n):
        self.generic_visit(n)
        if len(n.ops) == 1 and isinstance(n.ops[0], (ast.In, ast.NotIn)) and isinstance(n.comparators[0], (ast.Tuple, ast.List, ast.Set)) \
                and isinstance(n.left, (ast.Name, ast.Attribute, ast.Subscript)) and 1 <= len(n.comparators[0].elts) <= 8 \
                and not any(isinstance(e, ast.Starred) for e in n.comparators[0].elts):
            import copy
            isin = isinstance(n.ops[0], ast.In)
            parts = [ast.Compare(left=copy.deepcopy(n.left), ops=[ast.Eq() if isin else ast.NotEq()], comparators=[e])
                     for e in n.comparators[0].elts]
            node = parts[0] if len(parts) == 1 else ast.BoolOp(op=ast.Or() if isin else ast.And(), values=parts)
            ast.copy_location(node, n)
            ast.fix_missing_locations(node)
            return node
        return n

    # ---- N23  isinstance(x, A) or isinstance(x, B)  ->  isinstance(x, (A, B))
    def visit_BoolOp(self, n):
        self.generic_visit(n)
        if isinstance(n.op, ast.Or):
            out = []
            for v in n.values:
                prev = out[-1] if out else None

                def isi(c):
                    return isinstance(c, ast.Call) and isinstance(c.func, ast.Name) and c.func.id == 'isinstance' and len(c.args) == 2 and not c.keywords \
                        and isinstance(c.args[0], (ast.Name, ast.Attribute))
                if prev is not None and isi(prev) and isi(v) and ast.dump(prev.args[0]) == ast.dump(v.args[0]):
                    a = list(prev.args[1].elts) if isinstance(prev.args[1], ast.Tuple) else [prev.args[1]]
                    b = list(v.args[1].elts) if isinstance(v.args[1], ast.Tuple) else [v.args[1]]
                    merged = ast.Call(func=prev.func, args=[prev.args[0], ast.Tuple(elts=a + b, ctx=ast.Load())], keywords=[])
                    ast.copy_location(merged, prev)
                    ast.fix_missing_locations(merged)
                    out[-1] = merged
                else:
                    out.append(v)
            if len(out) == 1:
                return out[0]
            n.values = out
        return n

    # ---- N3
    def visit_Call(self, n):
        self.generic_visit(n)
        fn = n.func
        name = fn.attr if isinstance(fn, ast.Attribute) else (fn.id if isinstance(fn, ast.Name) else None)
        # N22  type(x)  ->  x.__class__
        if name == 'type' and isinstance(fn, ast.Name) and len(n.args) == 1 and not n.keywords and isinstance(n.args[0], ast.Name):
            node = ast.Attribute(value=n.args[0], attr='__class__', ctx=ast.Load())
            ast.copy_location(node, n)
            return node
        if name == 'matmul' and len(n.args) == 2 and not n.keywords and not any(isinstance(a, ast.Starred) for a in n.args):
            node = ast.BinOp(left=n.args[0], op=ast.MatMult(), right=n.args[1])
            ast.copy_location(node, n)
            return node
        # N3b  np.transpose(a) / a.transpose()  ->  a.T
        if name == 'transpose' and not n.keywords:
            if isinstance(fn, ast.Attribute) and isinstance(fn.value, ast.Name) and fn.value.id in ('np', 'numpy') and len(n.args) == 1:
                node = ast.Attribute(value=n.args[0], attr='T', ctx=ast.Load())
                ast.copy_location(node, n)
                return node
            if isinstance(fn, ast.Attribute) and not (isinstance(fn.value, ast.Name) and fn.value.id in ('np', 'numpy')) and not n.args:
                node = ast.Attribute(value=fn.value, attr='T', ctx=ast.Load())
                ast.copy_location(node, n)
                return node
        # N6  np.concatenate((a, b)) of a display (default axis 0)  ->  np.r_[a, b]
        if name == 'concatenate' and len(n.args) == 1 and not n.keywords and isinstance(n.args[0], (ast.Tuple, ast.List)) \
                and isinstance(fn, ast.Attribute) and isinstance(fn.value, ast.Name) and fn.value.id in ('np', 'numpy') and len(n.args[0].elts) >= 2:
            node = ast.Subscript(value=ast.Attribute(value=fn.value, attr='r_', ctx=ast.Load()),
                                 slice=ast.Tuple(elts=list(n.args[0].elts), ctx=ast.Load()), ctx=ast.Load())
            ast.copy_location(node, n)
            ast.fix_missing_locations(node)
            return node
        return n

    # ---- N7  accumulate-by-append loops
    def _append_loop(self, st, name):
        """`for T in IT: name.append(E)` with name not read in E / IT  ->  the comprehension, else None"""
        if not (isinstance(st, ast.For) and not st.orelse and len(st.body) == 1 and isinstance(st.body[0], ast.Expr)):
            return None
        c = st.body[0].value
        if not (isinstance(c, ast.Call) and isinstance(c.func, ast.Attribute) and c.func.attr == 'append' and isinstance(c.func.value, ast.Name)
                and c.func.value.id == name and len(c.args) == 1 and not c.keywords):
            return None
        if _refs(c.args[0], name) or _refs(st.iter, name) or _refs(st.target, name):
            return None
        # a for-loop leaves its target bound, a comprehension does not: the target must not be used outside the loop
        scope = getattr(self, '_scope', None)
        if scope is not None:
            # (every occurrence lies inside this loop or inside another loop / comprehension that binds the name itself)
            tnames = {x.id for x in ast.walk(st.target) if isinstance(x, ast.Name)}
            covered = set()
            for b in ast.walk(scope):
                tg = [b.target] if isinstance(b, (ast.For, ast.AsyncFor)) else \
                    [g.target for g in b.generators] if isinstance(b, (ast.ListComp, ast.SetComp, ast.DictComp, ast.GeneratorExp)) else []
                bound = {x.id for t in tg for x in ast.walk(t) if isinstance(x, ast.Name)}
                if isinstance(b, (ast.Lambda, ast.FunctionDef)) and b is not scope:
                    bound = {a.arg for a in b.args.args + b.args.kwonlyargs + b.args.posonlyargs}
                if bound & tnames:
                    for x in ast.walk(b):
                        if isinstance(x, ast.Name) and x.id in bound & tnames:
                            covered.add(id(x))
            if any(isinstance(x, ast.Name) and x.id in tnames and id(x) not in covered for x in ast.walk(scope)):
                return None
        comp = ast.ListComp(elt=c.args[0], generators=[ast.comprehension(target=st.target, iter=st.iter, ifs=[], is_async=0)])
        node = ast.Assign(targets=[ast.Name(id=name, ctx=ast.Store())], value=comp)
        ast.copy_location(node, st)
        ast.copy_location(comp, st)
        ast.fix_missing_locations(node)
        return node

    def _rewrite_first_fill(self, stmts, name):
        """`name` is known to be [] on entry to stmts.  The first statement on each path that mentions name is rewritten when it
        is an append loop (then name = [comprehension]); any other mention ends the rewriting on that path.
        -> (new statements, rewritten at this level?)"""
        out = []
        for i, st in enumerate(stmts):
            if not _refs(st, name):
                out.append(st)
                continue
            node = self._append_loop(st, name)
            if node is not None:
                return out + [node] + stmts[i + 1:], True
            if isinstance(st, ast.If) and not _refs(st.test, name):
                st.body, _ = self._rewrite_first_fill(st.body, name)
                if st.orelse:
                    st.orelse, _ = self._rewrite_first_fill(st.orelse, name)
            return out + stmts[i:], False
        return out, False

    def _fold_append_loops(self, stmts):
        out = []
        i = 0
        while i < len(stmts):
            st = stmts[i]
            if isinstance(st, ast.Assign) and len(st.targets) == 1 and isinstance(st.targets[0], ast.Name) and isinstance(st.value, ast.List) \
                    and not st.value.elts and i + 1 < len(stmts):
                tail, top = self._rewrite_first_fill(stmts[i + 1:], st.targets[0].id)
                if not top:
                    out.append(st)          # some path may still see the empty list
                stmts = stmts[:i + 1] + tail
                i += 1
                continue
            out.append(st)
            i += 1
        return out

    # ---- N8  a return that follows an if-chain whose arms end by assigning the returned name is moved into the arms
    def _sink_returns(self, stmts):
        if len(stmts) < 2 or not isinstance(stmts[-1], ast.Return) or not isinstance(stmts[-2], ast.If) or stmts[-1].value is None:
            return stmts
        ret, chain = stmts[-1], stmts[-2]
        names = {n.id for n in ast.walk(ret.value) if isinstance(n, ast.Name)}

        def arms(node):
            yield node.body
            if len(node.orelse) == 1 and isinstance(node.orelse[0], ast.If):
                yield from arms(node.orelse[0])
            elif node.orelse:
                yield node.orelse

        def fills(body):
            last = body[-1]
            return isinstance(last, ast.Assign) and len(last.targets) == 1 and isinstance(last.targets[0], ast.Name) and \
                last.targets[0].id in names and (isinstance(last.value, (ast.ListComp, ast.List)) or self._is_ref(last.value)) and \
                not _refs(last.value, last.targets[0].id)
        bodies = list(arms(chain))
        if not any(fills(b) for b in bodies):
            return stmts
        import copy

        def sink(node):
            if not _exits(node.body):
                node.body = node.body + [copy.deepcopy(ret)]
            if len(node.orelse) == 1 and isinstance(node.orelse[0], ast.If):
                sink(node.orelse[0])
            elif node.orelse:
                if not _exits(node.orelse):
                    node.orelse = node.orelse + [copy.deepcopy(ret)]
            else:
                node.orelse = [copy.deepcopy(ret)]
        sink(chain)
        return stmts[:-1]

    # ---- N8b / N9b  callee aliases:  if c: f = A            if c: return A(x)
    #                                 else: f = B      ->     else: return B(x)
    #                                 return f(x)
    @staticmethod
    def _is_class_ref(e):
        """a constructor reference: a capitalised name, cls, or <x>.__class__"""
        if isinstance(e, ast.Name):
            return e.id == 'cls' or (e.id[:1].isupper() and not e.id.isupper())
        return isinstance(e, ast.Attribute) and e.attr == '__class__'

    @staticmethod
    def _is_ref(e):
        while isinstance(e, ast.Attribute):
            e = e.value
        return isinstance(e, ast.Name)

    @staticmethod
    def _callee_only(stmts, name):
        """name is read in stmts only as the function of a call, at least once, and never stored"""
        funcs = set()
        n_use = 0
        for st in stmts:
            for x in ast.walk(st):
                if isinstance(x, ast.Call) and isinstance(x.func, ast.Name) and x.func.id == name:
                    funcs.add(id(x.func))
        for st in stmts:
            for x in ast.walk(st):
                if isinstance(x, ast.Name) and x.id == name:
                    if not isinstance(x.ctx, ast.Load) or id(x) not in funcs:
                        return False
                    n_use += 1
                if isinstance(x, (ast.FunctionDef, ast.ClassDef)):
                    return False
                if isinstance(x, ast.Lambda) and any(a.arg == name for a in x.args.args + x.args.kwonlyargs + x.args.posonlyargs):
                    return False
        return n_use > 0

    def _alias_of_arm(self, body):
        last = body[-1] if body else None
        if isinstance(last, ast.Assign) and len(last.targets) == 1 and isinstance(last.targets[0], ast.Name) and self._is_ref(last.value):
            return last.targets[0].id
        return None

    def _sink_alias_tail(self, stmts):
        import copy
        for i, st in enumerate(stmts):
            if not isinstance(st, ast.If):
                continue
            tail = stmts[i + 1:]
            if not (1 <= len(tail) <= 6) or not _exits(tail) or sum(1 for t in tail for _ in ast.walk(t)) > 400:
                continue
            bodies = []

            def arms(node):
                bodies.append(node.body)
                if len(node.orelse) == 1 and isinstance(node.orelse[0], ast.If):
                    arms(node.orelse[0])
                elif node.orelse:
                    bodies.append(node.orelse)
            arms(st)
            names = {self._alias_of_arm(b) for b in bodies if not _exits(b)}
            if len(names) != 1 or None in names:
                continue
            name = names.pop()
            if not self._callee_only(tail, name):
                continue

            def sink(node):
                if not _exits(node.body):
                    node.body = node.body + copy.deepcopy(tail)
                if len(node.orelse) == 1 and isinstance(node.orelse[0], ast.If):
                    sink(node.orelse[0])
                elif node.orelse:
                    if not _exits(node.orelse):
                        node.orelse = node.orelse + copy.deepcopy(tail)
                else:
                    node.orelse = copy.deepcopy(tail)
            sink(st)
            return stmts[:i + 1]
        return stmts

    def _inline_alias(self, stmts):
        for i, st in enumerate(stmts):
            if isinstance(st, ast.Assign) and len(st.targets) == 1 and isinstance(st.targets[0], ast.Name) and self._is_ref(st.value):
                rest = stmts[i + 1:]
                name = st.targets[0].id
                base = st.value
                while isinstance(base, ast.Attribute):
                    base = base.value
                if rest and _exits(rest) and self._callee_only(rest, name) and base.id != name and \
                        not any(isinstance(x, ast.Name) and x.id == base.id and not isinstance(x.ctx, ast.Load) for t in rest for x in ast.walk(t)):
                    sub = _SubstName(name, st.value)
                    return stmts[:i] + self._inline_alias([sub.visit(t) for t in rest])
        return stmts

    # ---- N9  xs = [display / comprehension]; <statement using xs once>   ->   the statement with the list in place
    def _inline_lists(self, stmts, scope):
        out = []
        i = 0
        if len(stmts) > 1 and any(isinstance(x, ast.Pass) for x in stmts):
            stmts = [x for x in stmts if not isinstance(x, ast.Pass)] or stmts[:1]      # N17: a `pass` next to other statements
        while i < len(stmts):
            st = stmts[i]
            nxt = stmts[i + 1] if i + 1 < len(stmts) else None
            # N9c  x = E; return x  ->  return E
            if isinstance(st, ast.Assign) and len(st.targets) == 1 and isinstance(st.targets[0], ast.Name) and isinstance(nxt, ast.Return) \
                    and isinstance(nxt.value, ast.Name) and nxt.value.id == st.targets[0].id:
                node = ast.Return(value=st.value)
                ast.copy_location(node, nxt)
                out.append(node)
                i += 2
                continue
            if isinstance(st, ast.Assign) and len(st.targets) == 1 and isinstance(st.targets[0], ast.Name) \
                    and (isinstance(st.value, ast.ListComp) or (isinstance(nxt, ast.Return) and self._is_ref(st.value)) or
                         (isinstance(nxt, ast.Return) and isinstance(st.value, ast.Call) and isinstance(nxt.value, ast.Call)
                          and not _refs(st.value, st.targets[0].id)
                          and any(isinstance(a, ast.Name) and a.id == st.targets[0].id for a in nxt.value.args))) \
                    and isinstance(nxt, (ast.Return, ast.Assign, ast.Expr)):
                name = st.targets[0].id
                uses = [n for n in ast.walk(nxt) if isinstance(n, ast.Name) and n.id == name]
                total = sum(1 for n in ast.walk(scope) if isinstance(n, ast.Name) and n.id == name)
                if len(uses) == 1 and isinstance(uses[0].ctx, ast.Load) and (total == 2 or isinstance(nxt, ast.Return)):
                    nxt2 = _Replace(uses[0], st.value).visit(nxt)
                    out.append(nxt2)
                    i += 2
                    continue
            out.append(st)
            i += 1
        return out

    def _blocks(self, node, scope):
        self._scope = scope
        for fld in ('body', 'orelse', 'finalbody'):
            stmts = getattr(node, fld, None)
            if isinstance(stmts, list) and stmts and isinstance(stmts[0], ast.stmt):
                stmts = self._fold_append_loops(stmts)
                stmts = self._sink_returns(stmts)
                stmts = self._sink_alias_tail(stmts)
                stmts = self._inline_alias(stmts)
                setattr(node, fld, stmts)
        for ch in ast.iter_child_nodes(node):
            if isinstance(ch, (ast.FunctionDef, ast.AsyncFunctionDef)):
                self._blocks(ch, ch)
                self._scope = scope
            elif isinstance(ch, (ast.stmt, ast.ExceptHandler)) or isinstance(ch, ast.ClassDef):
                self._blocks(ch, scope)

    def _inline_pass(self, node, scope):
        for fld in ('body', 'orelse', 'finalbody'):
            stmts = getattr(node, fld, None)
            if isinstance(stmts, list) and stmts and isinstance(stmts[0], ast.stmt) and scope is not None:
                for _ in range(4):
                    new = self._inline_lists(stmts, scope)
                    if len(new) == len(stmts):
                        break
                    stmts = new
                setattr(node, fld, stmts)
        for ch in ast.iter_child_nodes(node):
            if isinstance(ch, (ast.FunctionDef, ast.AsyncFunctionDef)):
                self._inline_pass(ch, ch)
            elif isinstance(ch, (ast.stmt, ast.ExceptHandler)):
                self._inline_pass(ch, scope)


class _SubstName(ast.NodeTransformer):
    def __init__(self, name, value):
        self.name, self.value = name, value

    def visit_Name(self, n):
        if n.id == self.name and isinstance(n.ctx, ast.Load):
            import copy
            return copy.deepcopy(self.value)
        return n


class _ReplaceNode(ast.NodeTransformer):
    def __init__(self, target, value):
        self.target, self.value = target, value

    def visit(self, n):
        if n is self.target:
            return self.value
        return self.generic_visit(n)


class _Replace(ast.NodeTransformer):
    def __init__(self, target, value):
        self.target, self.value = target, value

    def visit_Name(self, n):
        return self.value if n is self.target else n


def _refs(node, name):
    return any(isinstance(x, ast.Name) and x.id == name for x in ast.walk(node))


# ---- N13  calls of small private value helpers of the same module are replaced by the helper's result expression
def _inline_helpers(tree):
    from .boolfold import value_expr
    import copy
    helpers = {}
    for st in tree.body:
        if isinstance(st, ast.FunctionDef) and st.name.startswith('_') and not st.name.startswith('__') and not st.decorator_list \
                and st.args.vararg is None and st.args.kwarg is None and not st.args.kwonlyargs and not st.args.posonlyargs:
            if any(isinstance(x, ast.Name) and x.id == st.name for x in ast.walk(st)):
                continue
            e = value_expr(st)
            if e is None or sum(1 for _ in ast.walk(e)) > 80:
                continue
            params = [a.arg for a in st.args.args]
            # every name the expression reads is a parameter or a module-level / builtin name (no leftover local)
            stored = {x.id for x in ast.walk(st) if isinstance(x, ast.Name) and isinstance(x.ctx, ast.Store)}
            if any(isinstance(x, ast.Name) and x.id in stored and x.id not in params for x in ast.walk(e)):
                continue
            if any(isinstance(x, (ast.Lambda, ast.ListComp, ast.GeneratorExp, ast.SetComp, ast.DictComp, ast.NamedExpr, ast.Yield, ast.Await)) for x in ast.walk(e)):
                continue
            if any(p_ in stored for p_ in params):
                continue          # a parameter is rebound in the helper: the fold has substituted it, keep it simple
            defaults = dict(zip(params[len(params) - len(st.args.defaults):], st.args.defaults))
            helpers[st.name] = (params, defaults, e)
    if not helpers:
        return tree

    class Inl(ast.NodeTransformer):
        def visit_FunctionDef(self, n):
            if n.name in helpers and n in tree.body:
                return n
            return self.generic_visit(n)

        def visit_Call(self, c):
            self.generic_visit(c)
            if isinstance(c.func, ast.Name) and c.func.id in helpers and not any(isinstance(a, ast.Starred) for a in c.args) \
                    and all(k.arg for k in c.keywords):
                params, defaults, e = helpers[c.func.id]
                if len(c.args) > len(params):
                    return c
                env = dict(zip(params, c.args))
                for k in c.keywords:
                    if k.arg not in params or k.arg in env:
                        return c
                    env[k.arg] = k.value
                for p_ in params:
                    if p_ not in env:
                        if p_ not in defaults:
                            return c
                        env[p_] = defaults[p_]
                node = _SubstMany(env).visit(copy.deepcopy(e))
                for x in ast.walk(node):
                    ast.copy_location(x, c)
                return node
            return c
    for _ in range(2):
        tree = Inl().visit(tree)
    return tree


class _SubstMany(ast.NodeTransformer):
    def __init__(self, env):
        self.env = env

    def visit_Name(self, n):
        if isinstance(n.ctx, ast.Load) and n.id in self.env:
            import copy
            return copy.deepcopy(self.env[n.id])
        return n


# ---- N18  one calling convention for the plain functions of the package: parameters without a default positionally, parameters with
#           a default by keyword  (f(x, 3, 'deg') and f(x, dim=3, unit='deg') are one call)
_PKG_SIGS = {}


def package_signatures():
    """name -> (parameter names, number of defaults) for the module-level functions of the analysed package whose name is unique"""
    root = os.environ.get('VERIF_REPO', '/repo')
    key = os.path.realpath(root)
    if key in _PKG_SIGS:
        return _PKG_SIGS[key]
    import warnings
    sigs = {}
    base = os.path.join(root, 'spatialmath')
    for dp, _, files in os.walk(base):
        for fn in files:
            if not fn.endswith('.py'):
                continue
            try:
                with warnings.catch_warnings():
                    warnings.simplefilter('ignore')
                    t = ast.parse(open(os.path.join(dp, fn)).read())
            except (SyntaxError, OSError):
                continue
            for n in t.body:
                if isinstance(n, ast.FunctionDef):
                    ok = n.args.vararg is None and n.args.kwarg is None and not n.args.posonlyargs and not n.args.kwonlyargs
                    sigs.setdefault(n.name, []).append(([a.arg for a in n.args.args], len(n.args.defaults)) if ok else None)
    out = {k: v[0] for k, v in sigs.items() if len(v) == 1 and v[0] is not None}
    # the same name defined identically in two modules (e.g. 2-D / 3-D twins of a private helper) is not unique: left alone
    _PKG_SIGS[key] = out
    return out


class _CallConvention(ast.NodeTransformer):
    def __init__(self, aliases, local_defs):
        self.sigs = package_signatures()
        self.aliases = aliases
        self.local_defs = local_defs

    def visit_Call(self, c):
        self.generic_visit(c)
        f = c.func
        if isinstance(f, ast.Name):
            nm = f.id
        elif isinstance(f, ast.Attribute) and isinstance(f.value, ast.Name) and f.value.id in self.aliases:
            nm = f.attr
        elif isinstance(f, ast.Attribute) and isinstance(f.value, ast.Attribute) and isinstance(f.value.value, ast.Name) and f.value.value.id in self.aliases:
            nm = f.attr
        else:
            return c
        sig = self.sigs.get(nm)
        if sig is None or any(isinstance(a, ast.Starred) for a in c.args) or any(k.arg is None for k in c.keywords):
            return c
        params, ndef = sig
        if len(c.args) > len(params):
            return c
        bound = dict(zip(params, c.args))
        for k in c.keywords:
            if k.arg not in params or k.arg in bound:
                return c
            bound[k.arg] = k.value
        first_def = len(params) - ndef
        pos = []
        for p_ in params[:first_def]:
            if p_ not in bound:
                return c           # a required parameter is missing: leave the call as written
            pos.append(bound[p_])
        kws = [ast.keyword(arg=p_, value=bound[p_]) for p_ in params[first_def:] if p_ in bound]
        c.args, c.keywords = pos, kws
        return c


def _call_convention(tree):
    aliases = set()
    local_defs = set()
    for n in ast.walk(tree):
        if isinstance(n, ast.Import):
            for al in n.names:
                aliases.add((al.asname or al.name).split('.')[0])
        elif isinstance(n, ast.ImportFrom):
            for al in n.names:
                aliases.add(al.asname or al.name)
    # a name that the module binds itself (a local function of the same name as a package function, a parameter, ...) is not touched
    shadow = set()
    for n in ast.walk(tree):
        if isinstance(n, (ast.FunctionDef, ast.Lambda)):
            for a in n.args.args + n.args.kwonlyargs + n.args.posonlyargs:
                shadow.add(a.arg)
        elif isinstance(n, ast.Name) and isinstance(n.ctx, ast.Store):
            shadow.add(n.id)
    cc = _CallConvention(aliases, local_defs)
    cc.sigs = {k: v for k, v in cc.sigs.items() if k not in shadow}
    return cc.visit(tree)


# ---- N14 / N15  function-level copy propagation of references and of local one-expression functions
def _own_nodes(fn):
    """nodes of fn's own body, not descending into nested function / class definitions (lambdas are descended)"""
    stack = list(fn.body)
    while stack:
        n = stack.pop()
        yield n
        for ch in ast.iter_child_nodes(n):
            if isinstance(ch, (ast.FunctionDef, ast.AsyncFunctionDef, ast.ClassDef)):
                continue
            stack.append(ch)


def _is_ref_expr(e):
    while isinstance(e, ast.Attribute):
        e = e.value
    return isinstance(e, ast.Name)


def _store_counts(fn):
    cnt = {}
    own_args = set(map(id, fn.args.args + fn.args.kwonlyargs + fn.args.posonlyargs + ([fn.args.vararg] if fn.args.vararg else []) + ([fn.args.kwarg] if fn.args.kwarg else [])))
    for a in fn.args.args + fn.args.kwonlyargs + fn.args.posonlyargs + ([fn.args.vararg] if fn.args.vararg else []) + ([fn.args.kwarg] if fn.args.kwarg else []):
        cnt[a.arg] = cnt.get(a.arg, 0) + 1
    for n in ast.walk(fn):
        if n is fn:
            continue
        if isinstance(n, ast.Name) and isinstance(n.ctx, (ast.Store, ast.Del)):
            cnt[n.id] = cnt.get(n.id, 0) + 1
        elif isinstance(n, (ast.FunctionDef, ast.AsyncFunctionDef, ast.ClassDef)):
            cnt[n.name] = cnt.get(n.name, 0) + 1
        elif isinstance(n, (ast.Global, ast.Nonlocal)):
            for nm in n.names:
                cnt[nm] = cnt.get(nm, 0) + 5
        elif isinstance(n, ast.arg) and id(n) not in own_args:
            cnt[n.arg] = cnt.get(n.arg, 0) + 1          # parameter of a nested function / lambda: another binding of that name
    return cnt


def _propagate_refs(fn):
    """N15: `name = a.b.c` (the only binding of name in the function; a never rebound; no store to an attribute called b / c in the
    function) -> every later read of name is a.b.c"""
    cnt = _store_counts(fn)
    attr_stores = {n.attr for n in ast.walk(fn) if isinstance(n, ast.Attribute) and isinstance(n.ctx, (ast.Store, ast.Del))}
    mutated = set()
    for n in ast.walk(fn):
        if isinstance(n, ast.AugAssign):
            for x in ast.walk(n.target):
                if isinstance(x, ast.Name):
                    mutated.add(x.id)
        if isinstance(n, (ast.Subscript, ast.Attribute)) and isinstance(n.ctx, (ast.Store, ast.Del)):
            b = n
            while isinstance(b, (ast.Subscript, ast.Attribute)):
                b = b.value
            if isinstance(b, ast.Name):
                mutated.add(b.id)
    env = {}
    for st in _own_nodes(fn):
        if isinstance(st, ast.Assign) and len(st.targets) == 1 and isinstance(st.targets[0], ast.Name) and isinstance(st.value, ast.Attribute) \
                and _is_ref_expr(st.value):
            name = st.targets[0].id
            base = st.value
            attrs = []
            while isinstance(base, ast.Attribute):
                attrs.append(base.attr)
                base = base.value
            if cnt.get(name, 0) != 1 or name in mutated or cnt.get(base.id, 0) > 1 or base.id == name or set(attrs) & attr_stores:
                continue
            # a nested function that reads the name keeps the binding as it is
            if any(isinstance(x, ast.Name) and x.id == name for d in ast.walk(fn) if isinstance(d, (ast.FunctionDef, ast.AsyncFunctionDef)) and d is not fn
                   for x in ast.walk(d)):
                continue
            env[name] = st.value
    if env:
        _SubstMany(env).visit(fn)
    return fn


def _inline_local_functions(fn):
    """N14: a nested `def g(p, q): return E` / `g = lambda p, q: E` bound once, whose free names are stable in the enclosing function,
    is put in place: g(a, b) -> E[p := a, q := b], a bare g -> lambda p, q: E"""
    import copy
    cnt = _store_counts(fn)
    cands = {}
    for st in _own_nodes(fn):
        pass
    for blk_owner in ast.walk(fn):
        for fld in ('body', 'orelse', 'finalbody'):
            stmts = getattr(blk_owner, fld, None)
            if not isinstance(stmts, list):
                continue
            for st in stmts:
                g = None
                if isinstance(st, ast.FunctionDef) and st is not fn and not st.decorator_list:
                    body = [b for b in st.body if not (isinstance(b, ast.Expr) and isinstance(b.value, ast.Constant))]
                    if len(body) == 1 and isinstance(body[0], ast.Return) and body[0].value is not None:
                        g = (st.name, st.args, body[0].value, st)
                    elif body and all(isinstance(b, (ast.Assign, ast.Return, ast.If)) for b in body):
                        # straight-line temporaries before the return (Rt = X.R.T; return f(Rt, -Rt @ X.t)) fold into one expression
                        from .boolfold import value_expr
                        try:
                            e_ = value_expr(st)
                        except Exception:
                            e_ = None
                        if e_ is not None:
                            g = (st.name, st.args, e_, st)
                elif isinstance(st, ast.Assign) and len(st.targets) == 1 and isinstance(st.targets[0], ast.Name) and isinstance(st.value, ast.Lambda):
                    g = (st.targets[0].id, st.value.args, st.value.body, st)
                if g is None or cnt.get(g[0], 0) != 1:
                    continue
                name, args, body, node = g
                if args.vararg or args.kwarg or args.kwonlyargs or args.posonlyargs or args.defaults:
                    continue
                params = [a.arg for a in args.args]
                if any(isinstance(x, (ast.Lambda, ast.ListComp, ast.GeneratorExp, ast.SetComp, ast.DictComp, ast.NamedExpr, ast.Yield, ast.Await)) for x in ast.walk(body)):
                    continue
                free = {x.id for x in ast.walk(body) if isinstance(x, ast.Name)} - set(params)
                if name in free or any(cnt.get(v, 0) > 1 for v in free):
                    continue
                cands[name] = (params, body, node)
    if not cands:
        return fn

    class Inl(ast.NodeTransformer):
        def visit_FunctionDef(self, n):
            if n is not fn and any(n is c[2] for c in cands.values()):
                return n
            return self.generic_visit(n)

        def visit_Call(self, c):
            self.generic_visit(c)
            if isinstance(c.func, ast.Lambda) and getattr(c.func, '_inlined', False) and not c.keywords \
                    and len(c.args) == len(c.func.args.args) and not any(isinstance(a, ast.Starred) for a in c.args):
                env = {a.arg: v for a, v in zip(c.func.args.args, c.args)}
                return _SubstMany(env).visit(copy.deepcopy(c.func.body))
            return c

        def visit_Name(self, n):
            if isinstance(n.ctx, ast.Load) and n.id in cands:
                params, body, _ = cands[n.id]
                lam = ast.Lambda(args=ast.arguments(posonlyargs=[], args=[ast.arg(arg=p_) for p_ in params], kwonlyargs=[], kw_defaults=[], defaults=[]),
                                 body=copy.deepcopy(body))
                lam._inlined = True
                ast.copy_location(lam, n)
                return lam
            return n

        def visit_Assign(self, st):
            if any(st is c[2] for c in cands.values()):
                return st
            return self.generic_visit(st)
    Inl().visit(fn)
    ast.fix_missing_locations(fn)
    return fn


def _exits(body):
    if not body:
        return False
    last = body[-1]
    if isinstance(last, (ast.Return, ast.Raise, ast.Continue, ast.Break)):
        return True
    if isinstance(last, ast.If) and last.orelse:
        return _exits(last.body) and _exits(last.orelse)
    return False


def _ends_in_return(body):
    """every path through body leaves by `return` (not raise / continue / break)"""
    if not body:
        return False
    last = body[-1]
    if isinstance(last, ast.Return):
        return True
    if isinstance(last, ast.If) and last.orelse:
        return _ends_in_return(last.body) and _ends_in_return(last.orelse)
    return False


def restore_else(tree):
    """N20: an `if` without else whose body always RETURNS takes the rest of its block as its else part:
            if c: return A              if c: return A
            <rest>              ->      else: <rest>
    (guards that raise stay flat; they are followed through the N5 annotation)"""
    for n in ast.walk(tree):
        for fld in ('body', 'orelse', 'finalbody'):
            stmts = getattr(n, fld, None)
            if not isinstance(stmts, list) or len(stmts) < 2:
                continue
            # from the back, so that a sequence of early returns becomes one chain
            i = len(stmts) - 2
            while i >= 0:
                st = stmts[i]
                if isinstance(st, ast.If) and not st.orelse and _ends_in_return(st.body) and i + 1 < len(stmts) and \
                        not isinstance(n, (ast.For, ast.While, ast.AsyncFor)):
                    st.orelse = stmts[i + 1:]
                    del stmts[i + 1:]
                i -= 1
    return tree


def chain_guards(tree):
    """N21: the last arm of an if-chain written as a guard,
            else:                                   elif not c: <rest>
                if c: raise E          ->           else: raise E
                <rest>
    so that the chain ends in its `else: raise` again"""
    from .boolfold import negate, _push_not
    changed = True
    rounds = 0
    while changed and rounds < 4:
        changed = False
        rounds += 1
        for n in ast.walk(tree):
            if isinstance(n, ast.If) and len(n.orelse) >= 2:
                g = n.orelse[0]
                if isinstance(g, ast.If) and not g.orelse and len(g.body) == 1 and isinstance(g.body[0], ast.Raise):
                    rest = n.orelse[1:]
                    new = ast.If(test=_push_not(negate(g.test)), body=rest, orelse=g.body)
                    ast.copy_location(new, g)
                    ast.fix_missing_locations(new)
                    n.orelse = [new]
                    changed = True
    return tree


def annotate_continuations(tree):
    """N5: an `if` without else whose body always leaves the block (return / raise / continue / break) is the first arm of a
    chain whose else-part is the rest of the block:   if a: return X        if a: return X
                                                      if b: return Y   ==   elif b: return Y
                                                      raise E               else: raise E
    The AST is not restructured (rules that scan the top-level statements keep working); each such If node gets the attribute
    `_cont` = the statements that follow it in its block, and astutil.if_chain follows it."""
    for n in ast.walk(tree):
        for fld in ('body', 'orelse', 'finalbody'):
            stmts = getattr(n, fld, None)
            if not isinstance(stmts, list):
                continue
            for i, st in enumerate(stmts):
                if isinstance(st, ast.If) and not st.orelse and _exits(st.body) and i + 1 < len(stmts):
                    st._cont = stmts[i + 1:]
                    st._chained = i > 0 and isinstance(stmts[i - 1], ast.If) and getattr(stmts[i - 1], '_cont', None) is not None
    return tree


def normalise(tree):
    if os.environ.get('VERIF_NO_NORMALIZE') == '1':
        return tree
    tree = _call_convention(tree)
    tree = _inline_helpers(tree)
    for fn in [n for n in ast.walk(tree) if isinstance(n, ast.FunctionDef)]:
        _propagate_refs(fn)
        _inline_local_functions(fn)
    nz = _Normalise()
    # the rewrites enable one another (an else restored by N20 can be turned round by N11, a return sunk by N8 makes an arm return for
    # N20, ...): a few rounds, until the tree no longer changes
    prev = None
    for _ in range(4):
        restore_else(tree)
        chain_guards(tree)
        tree = nz.visit(tree)
        nz._blocks(tree, None)
        tree = nz.visit(tree)            # N10 on the comprehensions N7 produced
        nz._inline_pass(tree, None)
        ast.fix_missing_locations(tree)
        cur = ast.dump(tree)
        if cur == prev:
            break
        prev = cur
    restore_else(tree)
    chain_guards(tree)
    annotate_continuations(tree)
    return tree
