"""Source normalisation applied to every module AST right after parsing (line numbers are kept).

Only rewrites whose result is semantically identical Python are applied; they remove surface variation that a harmless
refactoring introduces, so that every rule sees one form:

  N1  statement-level conditional expressions
          return A if c else B          ->   if c: return A
                                             else: return B
          x = A if c else B             ->   if c: x = A
                                             else: x = B
  N2  membership in a display of alternatives
          e in (a, b, c)                ->   e == a or e == b or e == c
          e not in (a, b)               ->   e != a and e != b
      (e a name / attribute / subscript, so evaluating it several times is harmless)
  N3  function form of the matrix product
          np.matmul(a, b) / matmul(a, b)  ->   a @ b
  N4  negated disjunction / conjunction in a test position is left to the fact splitter (cfg._split handles polarity)

Set VERIF_NO_NORMALIZE=1 to analyse the raw AST (development aid)."""
import ast
import os


class _Normalise(ast.NodeTransformer):
    # ---- N1
    def _split_ifexp(self, st, value, make):
        test, a, b = value.test, value.body, value.orelse
        body = [make(a)]
        orelse = [make(b)]
        node = ast.If(test=test, body=body, orelse=orelse)
        ast.copy_location(node, st)
        for x in body + orelse:
            ast.copy_location(x, st)
        ast.fix_missing_locations(node)
        # nested conditional expressions in the arms
        return self.visit(node)

    def visit_Return(self, st):
        self.generic_visit(st)
        if isinstance(st.value, ast.IfExp):
            return self._split_ifexp(st, st.value, lambda v: ast.Return(value=v))
        return st

    def visit_Assign(self, st):
        self.generic_visit(st)
        if isinstance(st.value, ast.IfExp) and all(isinstance(t, (ast.Name, ast.Attribute)) for t in st.targets):
            import copy
            return self._split_ifexp(st, st.value, lambda v: ast.Assign(targets=[copy.deepcopy(t) for t in st.targets], value=v))
        return st

    # ---- N2
    def visit_Compare(self, n):
        self.generic_visit(n)
        if len(n.ops) == 1 and isinstance(n.ops[0], (ast.In, ast.NotIn)) and isinstance(n.comparators[0], (ast.Tuple, ast.List, ast.Set)) \
                and isinstance(n.left, (ast.Name, ast.Attribute, ast.Subscript)) and 1 <= len(n.comparators[0].elts) <= 8 \
                and not any(isinstance(e, ast.Starred) for e in n.comparators[0].elts):
            import copy
            isin = isinstance(n.ops[0], ast.In)
            parts = [ast.Compare(left=copy.deepcopy(n.left), ops=[ast.Eq() if isin else ast.NotEq()], comparators=[e])
                     for e in n.comparators[0].elts]
            node = parts[0] if len(parts) == 1 else ast.BoolOp(op=ast.Or() if isin else ast.And(), values=parts)
            ast.copy_location(node, n)
            ast.fix_missing_locations(node)
            return node
        return n

    # ---- N3
    def visit_Call(self, n):
        self.generic_visit(n)
        fn = n.func
        name = fn.attr if isinstance(fn, ast.Attribute) else (fn.id if isinstance(fn, ast.Name) else None)
        if name == 'matmul' and len(n.args) == 2 and not n.keywords and not any(isinstance(a, ast.Starred) for a in n.args):
            node = ast.BinOp(left=n.args[0], op=ast.MatMult(), right=n.args[1])
            ast.copy_location(node, n)
            return node
        return n


def _exits(body):
    if not body:
        return False
    last = body[-1]
    if isinstance(last, (ast.Return, ast.Raise, ast.Continue, ast.Break)):
        return True
    if isinstance(last, ast.If) and last.orelse:
        return _exits(last.body) and _exits(last.orelse)
    return False


def annotate_continuations(tree):
    """N5: an `if` without else whose body always leaves the block (return / raise / continue / break) is the first arm of a
    chain whose else-part is the rest of the block:   if a: return X        if a: return X
                                                      if b: return Y   ==   elif b: return Y
                                                      raise E               else: raise E
    The AST is not restructured (rules that scan the top-level statements keep working); each such If node gets the attribute
    `_cont` = the statements that follow it in its block, and astutil.if_chain follows it."""
    for n in ast.walk(tree):
        for fld in ('body', 'orelse', 'finalbody'):
            stmts = getattr(n, fld, None)
            if not isinstance(stmts, list):
                continue
            for i, st in enumerate(stmts):
                if isinstance(st, ast.If) and not st.orelse and _exits(st.body) and i + 1 < len(stmts):
                    st._cont = stmts[i + 1:]
                    st._chained = i > 0 and isinstance(stmts[i - 1], ast.If) and getattr(stmts[i - 1], '_cont', None) is not None
    return tree


def normalise(tree):
    if os.environ.get('VERIF_NO_NORMALIZE') == '1':
        return tree
    tree = _Normalise().visit(tree)
    ast.fix_missing_locations(tree)
    annotate_continuations(tree)
    return tree
