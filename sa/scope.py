"""Lexical scopes inside a function and reference resolution (names, module attributes,
self attributes, call targets)."""
import ast
import builtins

from .model import Function, Class, Target, program

BUILTINS = set(dir(builtins)) | {'__file__', '__name__', '__doc__', '__class__'}


class Scope:
    def __init__(self, node, kind, parent):
        self.node = node
        self.kind = kind          # function | lambda | comp | class
        self.parent = parent
        self.bound = set()
        self.globals = set()
        self.nonlocals = set()


def _bind_target(t, scope):
    if isinstance(t, ast.Name):
        scope.bound.add(t.id)
    elif isinstance(t, (ast.Tuple, ast.List)):
        for e in t.elts:
            _bind_target(e, scope)
    elif isinstance(t, ast.Starred):
        _bind_target(t.value, scope)


class ScopeMap:
    """Maps every ast.Name inside a function to the Scope in which it is evaluated."""

    def __init__(self, fnode):
        self.name_scope = {}
        self.node_scope = {}
        self.root = Scope(fnode, 'function', None)
        self._params(fnode.args, self.root)
        self._defaults(fnode, None)
        for st in fnode.body:
            self._collect(st, self.root)
        for st in fnode.body:
            self._visit(st, self.root)

    def _params(self, a, sc):
        for x in a.posonlyargs + a.args + a.kwonlyargs:
            sc.bound.add(x.arg)
        if a.vararg:
            sc.bound.add(a.vararg.arg)
        if a.kwarg:
            sc.bound.add(a.kwarg.arg)

    def _defaults(self, fnode, sc):
        pass

    # pass 1: bindings of one scope (does not descend into nested scopes)
    def _collect(self, n, sc):
        if isinstance(n, (ast.FunctionDef, ast.AsyncFunctionDef)):
            sc.bound.add(n.name)
            return
        if isinstance(n, ast.ClassDef):
            sc.bound.add(n.name)
            return
        if isinstance(n, ast.Lambda):
            return
        if isinstance(n, (ast.ListComp, ast.SetComp, ast.DictComp, ast.GeneratorExp)):
            # walrus inside comprehension binds in enclosing scope; not used by this repo
            return
        if isinstance(n, ast.Global):
            sc.globals.update(n.names)
        elif isinstance(n, ast.Nonlocal):
            sc.nonlocals.update(n.names)
        elif isinstance(n, ast.Assign):
            for t in n.targets:
                _bind_target(t, sc)
        elif isinstance(n, (ast.AugAssign, ast.AnnAssign)):
            _bind_target(n.target, sc)
        elif isinstance(n, (ast.For, ast.AsyncFor)):
            _bind_target(n.target, sc)
        elif isinstance(n, (ast.With, ast.AsyncWith)):
            for it in n.items:
                if it.optional_vars is not None:
                    _bind_target(it.optional_vars, sc)
        elif isinstance(n, ast.ExceptHandler):
            if n.name:
                sc.bound.add(n.name)
        elif isinstance(n, ast.Import):
            for a in n.names:
                sc.bound.add(a.asname or a.name.split('.')[0])
        elif isinstance(n, ast.ImportFrom):
            for a in n.names:
                sc.bound.add(a.asname or a.name)
        elif isinstance(n, ast.NamedExpr):
            _bind_target(n.target, sc)
        for c in ast.iter_child_nodes(n):
            self._collect(c, sc)

    # pass 2: assign each Name to its evaluation scope, creating child scopes
    def _visit(self, n, sc):
        self.node_scope[n] = sc
        if isinstance(n, ast.Name):
            self.name_scope[n] = sc
            return
        if isinstance(n, (ast.FunctionDef, ast.AsyncFunctionDef)):
            for d in n.decorator_list:
                self._visit(d, sc)
            for d in n.args.defaults + [k for k in n.args.kw_defaults if k is not None]:
                self._visit(d, sc)
            ch = Scope(n, 'function', sc)
            self._params(n.args, ch)
            for st in n.body:
                self._collect(st, ch)
            for st in n.body:
                self._visit(st, ch)
            return
        if isinstance(n, ast.Lambda):
            for d in n.args.defaults + [k for k in n.args.kw_defaults if k is not None]:
                self._visit(d, sc)
            ch = Scope(n, 'lambda', sc)
            self._params(n.args, ch)
            self._visit(n.body, ch)
            return
        if isinstance(n, (ast.ListComp, ast.SetComp, ast.DictComp, ast.GeneratorExp)):
            ch = Scope(n, 'comp', sc)
            for i, g in enumerate(n.generators):
                _bind_target(g.target, ch)
            for i, g in enumerate(n.generators):
                self._visit(g.iter, sc if i == 0 else ch)
                self._visit(g.target, ch)
                for c in g.ifs:
                    self._visit(c, ch)
            if isinstance(n, ast.DictComp):
                self._visit(n.key, ch)
                self._visit(n.value, ch)
            else:
                self._visit(n.elt, ch)
            return
        if isinstance(n, ast.ClassDef):
            ch = Scope(n, 'class', sc)
            for st in n.body:
                self._collect(st, ch)
            for st in n.body:
                self._visit(st, ch)
            return
        for c in ast.iter_child_nodes(n):
            self._visit(c, sc)

    def lookup(self, name, sc):
        """Return ('local', scope) | ('free', scope) | ('global', None)."""
        s = sc
        first = True
        while s is not None:
            if name in s.globals:
                return ('global', None)
            if s.kind == 'class' and not first:
                s = s.parent
                continue
            if name in s.bound and name not in s.nonlocals:
                return ('local' if s is sc else 'free', s)
            first = False
            s = s.parent
        return ('global', None)


class FuncInfo:
    """Per-function resolution facade."""
    _cache = {}

    def __init__(self, f):
        self.f = f
        self.prog = program()
        self.scopes = ScopeMap(f.node)
        self.outer = None
        if f.parent is not None:
            self.outer = FuncInfo.of(f.parent)

    @classmethod
    def of(cls, f):
        k = (id(program()), f.key)
        fi = cls._cache.get(k)
        if fi is None:
            fi = cls(f)
            cls._cache[k] = fi
        return fi

    def classify(self, name_node):
        """Classify a Name node inside this function.
        -> ('local'|'free'|'global'|'builtin'|'unresolved', Target-or-None)"""
        sc = self.scopes.name_scope.get(name_node)
        nm = name_node.id
        if sc is not None:
            k, s = self.scopes.lookup(nm, sc)
            if k in ('local', 'free'):
                return (k, None)
        return self.classify_free(nm)

    def classify_free(self, nm):
        # enclosing function scopes (for nested defs registered as separate Functions)
        o = self.outer
        while o is not None:
            if nm in o.scopes.root.bound and nm not in o.scopes.root.globals:
                return ('free', None)
            o = o.outer
        t = self.prog.resolve_name(self.f.module, nm)
        if t.kind != 'unresolved':
            return ('global', t)
        if nm in BUILTINS:
            return ('builtin', Target('builtin', nm, nm))
        return ('unresolved', None)

    def owner_class(self):
        f = self.f
        while f is not None:
            if f.cls is not None:
                return f.cls
            oc = getattr(f, 'outer_cls', None)
            if oc is not None:
                return oc
            f = f.parent
        return None

    def self_names(self):
        """Names that denote the receiver object in this function (incl. enclosing method's)."""
        out = set()
        f = self.f
        while f is not None:
            if f.selfname and f.kind in ('method', 'property'):
                out.add(f.selfname)
            f = f.parent
        return out

    def cls_names(self):
        out = set()
        f = self.f
        while f is not None:
            if f.selfname and f.kind == 'class':
                out.add(f.selfname)
            f = f.parent
        return out

    def resolve(self, e):
        """Resolve an expression used as callee / reference to a Target, when statically known.
        Handles Name, dotted module attributes, self.attr, cls.attr, ClassName.attr, super().attr."""
        if isinstance(e, ast.Name):
            k, t = self.classify(e)
            if k == 'global' or k == 'builtin':
                return t
            if k in ('local', 'free'):
                if e.id in self.self_names():
                    return Target('self', self.owner_class(), e.id)
                if e.id in self.cls_names():
                    return Target('selfclass', self.owner_class(), e.id)
                return Target('local', None, e.id)
            return Target('unresolved', None, e.id)
        if isinstance(e, ast.Attribute):
            b = self.resolve(e.value)
            if b.kind in ('module', 'external', 'class'):
                return self.prog.resolve_attr(b, e.attr)
            if b.kind in ('self', 'selfclass') and b.obj is not None:
                if e.attr == '__class__' and b.kind == 'self':
                    return Target('selfclass', b.obj, '__class__')
                k, mem = self.prog.lookup_member(b.obj, e.attr)
                if isinstance(mem, Function):
                    return Target('method', mem, e.attr)
                if mem is not None:
                    return Target('var', mem, e.attr)
                # abstract base: look in subclasses
                cands = []
                for sub in self.prog.subclasses(b.obj, strict=True):
                    k2, m2 = self.prog.lookup_member(sub, e.attr)
                    if m2 is not None:
                        cands.append(m2)
                if cands and all(isinstance(c, Function) for c in cands):
                    return Target('method', cands[0], e.attr)
                if e.attr in self.prog.instance_attrs(b.obj):
                    return Target('instattr', b.obj, e.attr)
                return Target('unresolved', None, e.attr)
            if b.kind == 'super':
                k, mem = self.prog.lookup_member(b.obj[0], e.attr, start_after=b.obj[1])
                if isinstance(mem, Function):
                    return Target('method', mem, e.attr)
                if mem is not None:
                    return Target('var', mem, e.attr)
                return Target('unresolved', None, e.attr)
            return Target('unknown', None, e.attr)
        if isinstance(e, ast.Call):
            if isinstance(e.func, ast.Name) and e.func.id == 'super':
                oc = self.owner_class()
                if oc is not None:
                    return Target('super', (oc, oc), 'super')
            if isinstance(e.func, ast.Name) and e.func.id == 'type' and len(e.args) == 1:
                a = self.resolve(e.args[0])
                if a.kind == 'self':
                    return Target('selfclass', a.obj, 'type')
        return Target('unknown', None, None)


def call_targets(fi, call):
    """Resolved callee(s) of a Call node: list of Function objects (repo) or names of externals."""
    t = fi.resolve(call.func)
    if t.kind in ('func', 'method') and isinstance(t.obj, Function):
        return [t.obj]
    if t.kind == 'class' and isinstance(t.obj, Class):
        k, init = fi.prog.lookup_member(t.obj, '__init__')
        return [init] if isinstance(init, Function) else []
    return []
