"""Fold the body of a predicate (a function all of whose exits return a value) into ONE expression.

    if c: return False            not c and (d or E)
    if d: return True      ->
    x = E
    return x

Statement forms accepted: docstrings, `name = expr` (substituted into the later expressions: predicates have pure operands),
`if` with / without else, `return expr`.  Anything else (loops, try, augmented assignment, fall-off) -> None: the caller
reports an unrecognised form.  The boolean simplifications applied are exact for truth values:
    A if c else False -> c and A        False if c else B -> not c and B
    A if c else True  -> not c or A     True  if c else B -> c or B
and negations are pushed inwards through and / or / not and the complementary comparisons (== / !=, is / is not, in / not in;
ordering comparisons keep their `not`, NaN)."""
import ast
import copy

_COMPLEMENT = {ast.Eq: ast.NotEq, ast.NotEq: ast.Eq, ast.Is: ast.IsNot, ast.IsNot: ast.Is, ast.In: ast.NotIn, ast.NotIn: ast.In}


class _Subst(ast.NodeTransformer):
    def __init__(self, env):
        self.env = env

    def visit_Name(self, n):
        if isinstance(n.ctx, ast.Load) and n.id in self.env:
            return copy.deepcopy(self.env[n.id])
        return n


def negate(e):
    if isinstance(e, ast.UnaryOp) and isinstance(e.op, ast.Not):
        return e.operand
    if isinstance(e, ast.BoolOp):
        return ast.BoolOp(op=ast.And() if isinstance(e.op, ast.Or) else ast.Or(), values=[negate(v) for v in e.values])
    if isinstance(e, ast.Compare) and len(e.ops) == 1 and type(e.ops[0]) in _COMPLEMENT:
        return ast.Compare(left=e.left, ops=[_COMPLEMENT[type(e.ops[0])]()], comparators=e.comparators)
    if isinstance(e, ast.Constant) and isinstance(e.value, bool):
        return ast.Constant(value=not e.value)
    return ast.UnaryOp(op=ast.Not(), operand=e)


def _push_not(e):
    """negations inwards, recursively"""
    if isinstance(e, ast.UnaryOp) and isinstance(e.op, ast.Not):
        inner = e.operand
        if isinstance(inner, (ast.BoolOp,)) or (isinstance(inner, ast.UnaryOp) and isinstance(inner.op, ast.Not)) or \
                (isinstance(inner, ast.Compare) and len(inner.ops) == 1 and type(inner.ops[0]) in _COMPLEMENT):
            return _push_not(negate(inner))
        return e
    if isinstance(e, ast.BoolOp):
        return ast.BoolOp(op=e.op, values=[_push_not(v) for v in e.values])
    return e


def _is_const(e, v):
    return isinstance(e, ast.Constant) and e.value is v


def _and(a, b):
    return ast.BoolOp(op=ast.And(), values=[a, b])


def _or(a, b):
    return ast.BoolOp(op=ast.Or(), values=[a, b])


def _ite(c, a, b, boolean=True):
    if not boolean:
        return ast.IfExp(test=c, body=a, orelse=b)
    if _is_const(a, False):
        return _and(negate(c), b)
    if _is_const(a, True):
        return _or(c, b)
    if _is_const(b, False):
        return _and(c, a)
    if _is_const(b, True):
        return _or(negate(c), a)
    return ast.IfExp(test=c, body=a, orelse=b)


def _exits(body):
    if not body:
        return False
    last = body[-1]
    if isinstance(last, (ast.Return, ast.Raise)):
        return True
    if isinstance(last, ast.If) and last.orelse:
        return _exits(last.body) and _exits(last.orelse)
    return False


def _exits_value(body):
    return any(isinstance(x, ast.Return) for b in body for x in ast.walk(b))


def _fold(stmts, env, depth=0, boolean=True):
    if depth > 40:
        return None
    for i, st in enumerate(stmts):
        if isinstance(st, ast.Expr) and isinstance(st.value, ast.Constant):
            continue
        if isinstance(st, ast.Assign) and len(st.targets) == 1 and isinstance(st.targets[0], ast.Name):
            env = dict(env)
            env[st.targets[0].id] = _Subst(env).visit(copy.deepcopy(st.value))
            continue
        if isinstance(st, ast.Return):
            if st.value is None:
                return None
            return _Subst(env).visit(copy.deepcopy(st.value))
        if isinstance(st, ast.If) and not st.orelse and st.body and all(isinstance(b, (ast.Raise, ast.Expr)) for b in st.body) and isinstance(st.body[-1], ast.Raise):
            continue          # a guard that only raises: the value is defined where it does not fire
        if isinstance(st, ast.If) and st.orelse and all(isinstance(b, (ast.Raise, ast.Expr)) for b in st.orelse) and isinstance(st.orelse[-1], ast.Raise) \
                and not _exits_value(st.orelse):
            # if ok: <value part> else: raise  -- the value part is the predicate
            return _fold(st.body + ([] if _exits(st.body) else stmts[i + 1:]), env, depth + 1, boolean)
        if isinstance(st, ast.If):
            rest = stmts[i + 1:]
            c = _Subst(env).visit(copy.deepcopy(st.test))
            a = _fold(st.body + ([] if _exits(st.body) else rest), env, depth + 1, boolean)
            b = _fold((st.orelse + ([] if _exits(st.orelse) else rest)) if st.orelse else rest, env, depth + 1, boolean)
            if a is None or b is None:
                return None
            return _ite(c, a, b, boolean)
        return None
    return None


def predicate_expr(fnode):
    """one expression equal to the function's result for every input, or None"""
    body = list(fnode.body)
    e = _fold(body, {})
    if e is None:
        return None
    e = _push_not(e)
    e = ast.fix_missing_locations(ast.copy_location(e, fnode))
    return e


def value_expr(fnode):
    """one expression (conditional expressions for the branches, no boolean simplification) equal to the function's result for
    every input on which it returns, or None when the body has loops / raises / falls off the end"""
    e = _fold(list(fnode.body), {}, boolean=False)
    if e is None:
        return None
    return ast.fix_missing_locations(ast.copy_location(e, fnode))
