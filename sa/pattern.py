"""Expression canonicalisation and structural pattern matching with metavariables.

canon(): resolves callees to short canonical names (np.linalg.norm -> norm, base.isR -> isR, np.identity -> eye),
inlines single-assignment locals, drops float()/parentheses.  match(): structural match of a pattern written as
Python source with metavariables (_A, _B ...; `__` matches anything), modulo commutativity of + * == and/or and the
a<b / b>a mirror."""
import ast
import copy
import itertools

from .model import Function, Class
from .astutil import single_assignments

ALIASES = {'identity': 'eye', 'absolute': 'abs', 'fabs': 'abs', 'arctan2': 'atan2', 'arccos': 'acos', 'arcsin': 'asin',
           'linalg.norm': 'norm'}


def short_name(fi, fn):
    t = fi.resolve(fn)
    if t.kind == 'func' and isinstance(t.obj, Function):
        return t.obj.name
    if t.kind == 'method' and isinstance(t.obj, Function) and not isinstance(fn, ast.Attribute):
        return t.obj.name
    if t.kind == 'class' and isinstance(t.obj, Class):
        return t.obj.name
    if t.kind == 'external':
        s = str(t.obj).split('.')[-1]
        return ALIASES.get(s, s)
    if t.kind == 'builtin':
        return str(t.obj)
    return None


class _Canon(ast.NodeTransformer):
    """Works on a deep copy; `omap` maps copied nodes back to the originals so that scope-sensitive
    resolution (FuncInfo) still sees the nodes it indexed.  The source tree is never modified."""

    def __init__(self, fi, inline, omap, depth=0):
        self.fi = fi
        self.inline = inline
        self.omap = omap
        self.depth = depth

    def o(self, n):
        return self.omap.get(id(n), n)

    def visit_Call(self, n):
        nm = short_name(self.fi, self.o(n).func)
        args = [self.visit(a) for a in n.args]
        kws = [ast.keyword(arg=k.arg, value=self.visit(k.value)) for k in n.keywords]
        if nm is not None:
            f = ast.Name(id=nm, ctx=ast.Load())
        else:
            f = self.visit(n.func)
        if nm == 'float' and len(args) == 1 and not kws:
            return args[0]
        return ast.Call(func=f, args=args, keywords=kws)

    def visit_Attribute(self, n):
        t = self.fi.resolve(self.o(n))
        if t.kind == 'external':
            s = str(t.obj).split('.')[-1]
            return ast.Name(id=ALIASES.get(s, s), ctx=ast.Load())
        if t.kind == 'func' and isinstance(t.obj, Function):
            return ast.Name(id=t.obj.name, ctx=ast.Load())
        return ast.Attribute(value=self.visit(n.value), attr=n.attr, ctx=ast.Load())

    def visit_Name(self, n):
        if n.id in self.inline and self.depth < 12 and isinstance(n.ctx, ast.Load):
            on = self.o(n)
            sc = self.fi.scopes.name_scope.get(on)
            if sc is None or self.fi.scopes.lookup(n.id, sc)[1] is self.fi.scopes.root:
                return _canon(self.fi, self.inline[n.id], self.inline, self.depth + 1)
        return ast.Name(id=n.id, ctx=n.ctx)


def _canon(fi, e, inline, depth=0):
    e2 = copy.deepcopy(e)
    omap = {id(c): o for o, c in zip(ast.walk(e), ast.walk(e2))}
    return _Canon(fi, inline, omap, depth).visit(e2)


_inl_cache = {}


def inline_map(fi):
    k = (id(fi.prog), fi.f.key)
    if k not in _inl_cache:
        _inl_cache[k] = single_assignments(fi.f.node)
    return _inl_cache[k]


def canon(fi, e, inline=True):
    """Canonical copy of expression e (callee names resolved, locals inlined). e is not modified."""
    m = inline_map(fi) if inline else {}
    return ast.fix_missing_locations(_canon(fi, e, m))


_sig_cache = {}


# positional parameter names of the numpy / math functions the package calls with keywords somewhere (canonical short names)
NUMPY_SIGNATURES = {
    'zeros': ['shape', 'dtype', 'order'], 'ones': ['shape', 'dtype', 'order'], 'empty': ['shape', 'dtype', 'order'],
    'eye': ['N', 'M', 'k', 'dtype'], 'identity': ['n', 'dtype'], 'array': ['object', 'dtype'], 'asarray': ['a', 'dtype'],
    'stack': ['arrays', 'axis'], 'concatenate': ['arrays', 'axis'], 'cross': ['a', 'b'], 'dot': ['a', 'b'], 'norm': ['x', 'ord', 'axis'],
    'isclose': ['a', 'b', 'rtol', 'atol'], 'allclose': ['a', 'b', 'rtol', 'atol'], 'linspace': ['start', 'stop', 'num'],
    'arctan2': ['x1', 'x2'], 'atan2': ['y', 'x'], 'reshape': ['a', 'newshape'], 'tile': ['A', 'reps'], 'sum': ['a', 'axis'],
    'trace': ['a'], 'det': ['a'], 'inv': ['a'], 'expm': ['A'], 'logm': ['A'],
}


def _plain_signature(name):
    """positional parameter names of the package's plain (module-level) function `name` if that name is unique, else those of the
    numpy function of that (canonical) name, else None"""
    from .model import program
    prog = program()
    k = (id(prog), name)
    if k not in _sig_cache:
        fs = [f for f in prog.functions.values() if f.cls is None and f.parent is None and f.name == name and f.module.short != 'stdlib/collections']
        sigs = {tuple(f.params) for f in fs}
        _sig_cache[k] = list(sigs.pop()) if len(sigs) == 1 and fs and fs[0].node.args.vararg is None else None
        if not fs and name in NUMPY_SIGNATURES:
            _sig_cache[k] = list(NUMPY_SIGNATURES[name])
    return _sig_cache[k]


def positional(call):
    """the call with its keyword arguments moved to their positions, as far as they continue the positional ones (for evaluators that
    read arguments by index: isvector(x, dim=3) -> isvector(x, 3)); the call itself when nothing is known about the callee"""
    f = call.func
    nm = f.id if isinstance(f, ast.Name) else (f.attr if isinstance(f, ast.Attribute) else None)
    if nm is None or not call.keywords or any(k.arg is None for k in call.keywords) or any(isinstance(a, ast.Starred) for a in call.args):
        return call
    sig = _plain_signature(nm)
    if sig is None:
        return call
    pos = list(call.args)
    by = {k.arg: k for k in call.keywords}
    while len(pos) < len(sig) and sig[len(pos)] in by:
        pos.append(by.pop(sig[len(pos)]).value)
    if len(pos) == len(call.args):
        return call
    return ast.copy_location(ast.Call(func=f, args=pos, keywords=list(by.values())), call)


_pat_cache = {}


def parse_pat(s):
    """pattern text -> AST, put through the expression-level rewrites of the source normal form (type(x) -> x.__class__,
    np.matmul -> @, membership in a display -> ==/or, ...) so that patterns may be written in any of the equivalent spellings"""
    hit = _pat_cache.get(s)
    if hit is None:
        tree = ast.parse(s, mode='eval')
        try:
            from .normalize import _Normalise
            tree = _Normalise().visit(tree)
            ast.fix_missing_locations(tree)
        except Exception:
            tree = ast.parse(s, mode='eval')
        hit = tree.body
        _pat_cache[s] = hit
    import copy
    return copy.deepcopy(hit)


def is_meta(n):
    return isinstance(n, ast.Name) and n.id.startswith('_') and len(n.id) >= 2 and (n.id[1].isupper() or n.id == '__')


def dump(e):
    return ast.dump(e, annotate_fields=False)


MIRROR = {ast.Lt: ast.Gt, ast.Gt: ast.Lt, ast.LtE: ast.GtE, ast.GtE: ast.LtE, ast.Eq: ast.Eq, ast.NotEq: ast.NotEq}


def _flatten(e, op):
    if isinstance(e, ast.BinOp) and isinstance(e.op, op):
        return _flatten(e.left, op) + _flatten(e.right, op)
    return [e]


def _same(a, b):
    try:
        return ast.unparse(a) == ast.unparse(b)
    except Exception:
        return dump(a) == dump(b)


_BINDERS = (ast.ListComp, ast.GeneratorExp, ast.SetComp, ast.DictComp, ast.Lambda)
_alpha_cache = {}


class _Alpha(ast.NodeTransformer):
    """bound variables of comprehensions and lambdas get canonical names by nesting depth and position: `[f(x) for x in xs]` and
    `[f(q) for q in xs]` are the same expression.  Metavariables of a pattern are left alone."""

    def __init__(self):
        self.depth = 0
        self.env = {}

    def _bind(self, names, visit):
        saved = dict(self.env)
        for i, nm in enumerate(names):
            if not (nm.startswith('_') and len(nm) >= 2 and (nm[1].isupper() or nm == '__')):
                self.env[nm] = 'bv%d_%d__' % (self.depth, i)
        self.depth += 1
        try:
            return visit()
        finally:
            self.depth -= 1
            self.env = saved

    def visit_Name(self, n):
        if n.id in self.env:
            return ast.copy_location(ast.Name(id=self.env[n.id], ctx=n.ctx), n)
        return n

    def visit_arg(self, n):
        if n.arg in self.env:
            return ast.copy_location(ast.arg(arg=self.env[n.arg], annotation=None), n)
        return n

    def _comp(self, n):
        # the first iterable is evaluated outside the comprehension's scope
        first = self.visit(n.generators[0].iter)
        names = []
        for g in n.generators:
            for x in ast.walk(g.target):
                if isinstance(x, ast.Name) and x.id not in names:
                    names.append(x.id)

        def inner():
            gens = []
            for i, g in enumerate(n.generators):
                gens.append(ast.comprehension(target=self.visit(g.target), iter=first if i == 0 else self.visit(g.iter),
                                              ifs=[self.visit(c) for c in g.ifs], is_async=g.is_async))
            if isinstance(n, ast.DictComp):
                return ast.copy_location(ast.DictComp(key=self.visit(n.key), value=self.visit(n.value), generators=gens), n)
            return ast.copy_location(type(n)(elt=self.visit(n.elt), generators=gens), n)
        return self._bind(names, inner)

    visit_ListComp = visit_GeneratorExp = visit_SetComp = visit_DictComp = _comp

    def visit_Lambda(self, n):
        names = [a.arg for a in n.args.posonlyargs + n.args.args + n.args.kwonlyargs]

        def inner():
            return ast.copy_location(ast.Lambda(args=self.visit(n.args), body=self.visit(n.body)), n)
        return self._bind(names, inner)


def alpha(e):
    """e with the bound variables of comprehensions / lambdas renamed canonically (a copy; e itself when it has none)"""
    k = id(e)
    hit = _alpha_cache.get(k)
    if hit is not None and hit[0] is e:
        return hit[1]
    if not any(isinstance(x, _BINDERS) for x in ast.walk(e)):
        r = e
    else:
        import copy
        r = ast.fix_missing_locations(_Alpha().visit(copy.deepcopy(e)))
    if len(_alpha_cache) > 20000:
        _alpha_cache.clear()
    _alpha_cache[k] = (e, r)
    return r


def match(p, e, b=None):
    """Match pattern AST p against expression AST e (modulo the names of comprehension / lambda variables); returns bindings dict
    or None."""
    b = {} if b is None else b
    r = _m(alpha(p), alpha(e), b)
    return r


def _m(p, e, b):
    if is_meta(p):
        if p.id == '__':
            return b
        if p.id in b:
            return b if _same(b[p.id], e) else None
        nb = dict(b)
        nb[p.id] = e
        return nb
    if isinstance(p, ast.Constant):
        if isinstance(e, ast.Constant) and p.value == e.value and type(p.value) in (type(e.value), int, float):
            return b
        return None
    if type(p) is not type(e):
        return None
    if isinstance(p, ast.Name):
        return b if p.id == e.id else None
    if isinstance(p, ast.BinOp):
        if type(p.op) is not type(e.op):
            return None
        if isinstance(p.op, (ast.Add, ast.Mult)):
            ps = _flatten(p, type(p.op))
            es = _flatten(e, type(e.op))
            if len(ps) != len(es):
                return None
            for perm in itertools.permutations(es):
                bb = b
                for x, y in zip(ps, perm):
                    bb = _m(x, y, bb)
                    if bb is None:
                        break
                if bb is not None:
                    return bb
            return None
        bb = _m(p.left, e.left, b)
        return _m(p.right, e.right, bb) if bb is not None else None
    if isinstance(p, ast.BoolOp):
        if type(p.op) is not type(e.op) or len(p.values) != len(e.values):
            return None
        for perm in itertools.permutations(e.values):
            bb = b
            for x, y in zip(p.values, perm):
                bb = _m(x, y, bb)
                if bb is None:
                    break
            if bb is not None:
                return bb
        return None
    if isinstance(p, ast.Compare):
        if len(p.ops) != len(e.ops):
            return None
        if len(p.ops) == 1:
            # a tolerance test `|x| < k * eps` and `|x| <= k * eps` are the same test (the boundary is a single float)
            if {type(p.ops[0]), type(e.ops[0])} in ({ast.Lt, ast.LtE}, {ast.Gt, ast.GtE}) and \
                    any(isinstance(y, ast.Name) and ('eps' in y.id.lower() or y.id == 'tol') for y in ast.walk(e)):
                bb = _m(p.left, e.left, b)
                bb = _m(p.comparators[0], e.comparators[0], bb) if bb is not None else None
                if bb is not None:
                    return bb
            if type(p.ops[0]) is type(e.ops[0]):
                bb = _m(p.left, e.left, b)
                bb = _m(p.comparators[0], e.comparators[0], bb) if bb is not None else None
                if bb is not None:
                    return bb
            mo = MIRROR.get(type(p.ops[0]))
            if mo is not None and mo is type(e.ops[0]):
                bb = _m(p.left, e.comparators[0], b)
                bb = _m(p.comparators[0], e.left, bb) if bb is not None else None
                return bb
            return None
        bb = _m(p.left, e.left, b)
        for po, eo, pc, ec in zip(p.ops, e.ops, p.comparators, e.comparators):
            if bb is None or type(po) is not type(eo):
                return None
            bb = _m(pc, ec, bb)
        return bb
    if isinstance(p, ast.Call):
        bb = _m(p.func, e.func, b)
        if bb is None:
            return None
        # one calling convention for package functions: `tr2rpy(x, 'deg')` and `tr2rpy(x, unit='deg')` are the same call -- when
        # the callee is a uniquely named plain function of the package, both sides are bound to its parameter names first
        def short(f):
            return f.id if isinstance(f, ast.Name) else (f.attr if isinstance(f, ast.Attribute) and isinstance(f.value, (ast.Name, ast.Attribute)) else None)
        # (also for module-qualified callees that are spelt the same on both sides: base.isvector(x, 3) / base.isvector(x, dim=3))
        sig = _plain_signature(short(p.func)) if short(p.func) is not None and short(p.func) == short(e.func) and \
            (isinstance(p.func, ast.Name) or not (isinstance(p.func.value, ast.Name) and p.func.value.id in ('self', 'cls', 'left', 'right'))) else None
        if sig is not None and not any(isinstance(a, ast.Starred) for a in list(p.args) + list(e.args)) and \
                not any(k.arg is None for k in list(p.keywords) + list(e.keywords)) and len(p.args) <= len(sig) and len(e.args) <= len(sig):
            pb = dict(zip(sig, p.args))
            pb.update({k.arg: k.value for k in p.keywords})
            eb = dict(zip(sig, e.args))
            eb.update({k.arg: k.value for k in e.keywords})
            if set(pb) != set(eb):
                return None
            for k in pb:
                bb = _m(pb[k], eb[k], bb)
                if bb is None:
                    return None
            return bb
        # a trailing Starred metavariable `*_REST` absorbs remaining args
        pargs = list(p.args)
        if pargs and isinstance(pargs[-1], ast.Starred) and is_meta(pargs[-1].value):
            pargs = pargs[:-1]
            if len(e.args) < len(pargs):
                return None
            eargs = e.args[:len(pargs)]
            ignore_kw = True
        else:
            if len(pargs) != len(e.args):
                return None
            eargs = e.args
            ignore_kw = False
        for x, y in zip(pargs, eargs):
            bb = _m(x, y, bb)
            if bb is None:
                return None
        pk = {k.arg: k.value for k in p.keywords}
        ek = {k.arg: k.value for k in e.keywords}
        if not ignore_kw and set(pk) != set(ek):
            return None
        for k, v in pk.items():
            if k not in ek:
                return None
            bb = _m(v, ek[k], bb)
            if bb is None:
                return None
        return bb
    if isinstance(p, ast.arg):
        if p.arg.startswith('_') and len(p.arg) >= 2 and p.arg[1].isupper():
            return _m(ast.Name(id=p.arg, ctx=ast.Load()), ast.Name(id=e.arg, ctx=ast.Load()), b)
        return b if p.arg == e.arg else None
    if isinstance(p, (ast.Tuple, ast.List)):
        if len(p.elts) != len(e.elts):
            return None
        bb = b
        for x, y in zip(p.elts, e.elts):
            bb = _m(x, y, bb)
            if bb is None:
                return None
        return bb
    # generic structural comparison of fields
    bb = b
    for (fn, pv), (_, evv) in zip(ast.iter_fields(p), ast.iter_fields(e)):
        if fn in ('ctx', 'lineno', 'col_offset', 'end_lineno', 'end_col_offset', 'type_comment', 'kind'):
            continue
        if isinstance(pv, ast.AST):
            if not isinstance(evv, ast.AST):
                return None
            bb = _m(pv, evv, bb)
        elif isinstance(pv, list):
            if not isinstance(evv, list) or len(pv) != len(evv):
                return None
            for x, y in zip(pv, evv):
                if isinstance(x, ast.AST):
                    bb = _m(x, y, bb)
                elif x != y:
                    return None
                if bb is None:
                    return None
        else:
            if pv != evv:
                return None
        if bb is None:
            return None
    return bb


def matches(pat, e):
    p = parse_pat(pat) if isinstance(pat, str) else pat
    return match(p, e)


def find_all(pat, e):
    """All sub-expressions of e matching the pattern -> list of (node, bindings)."""
    p = parse_pat(pat) if isinstance(pat, str) else pat
    out = []
    for n in ast.walk(e):
        if isinstance(n, ast.expr):
            b = match(p, n)
            if b is not None:
                out.append((n, b))
    return out


def conjuncts(e):
    """Flatten nested `and`."""
    if isinstance(e, ast.BoolOp) and isinstance(e.op, ast.And):
        r = []
        for v in e.values:
            r += conjuncts(v)
        return r
    return [e]


def disjuncts(e):
    if isinstance(e, ast.BoolOp) and isinstance(e.op, ast.Or):
        r = []
        for v in e.values:
            r += disjuncts(v)
        return r
    return [e]
