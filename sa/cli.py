"""Command line: ./check Cxx --tier quick|thorough ; ./check --replay file ; ./check --selfcheck"""
import argparse
import json
import os
import sys
import traceback

from .model import AnalysisError, program
from .report import Run, VERIF


def run_property(pid, tier, only_key=None, quiet=False):
    from . import props
    try:
        fn = props.CHECKS.get(pid)
        if fn is None:
            print('ANALYSIS-ERROR property=%s no check registered' % pid)
            return 2
        run = Run(pid, tier)
        try:
            fn(run)
        except AnalysisError as e:
            run.error(str(e))
        if tier == 'thorough' and only_key is None and not os.environ.get('VERIF_NO_TWINS'):
            # sensitivity witnesses: every broken twin of this property must make the quick check fire
            from . import selftest
            res = selftest.run_twins(pid)
            run.extra['sensitivity_witnesses'] = {
                'twins': len(res), 'fired': sum(1 for r in res if r[2] == 'fired'),
                'skipped': [r[0] for r in res if r[2] == 'skipped'], 'missed': [r[0] for r in res if r[2] == 'MISSED'],
                'samples': [{'twin': r[0], 'verdict': r[2], 'report': r[3][:160]} for r in res[:6]]}
            for r in res:
                if r[2] == 'MISSED':
                    run.error('sensitivity witness %s did not fire: the check lost the ability to see this defect (%s)' % (r[0], r[3][:200]))
        return run.finish(quiet=quiet, only_key=only_key)
    except AnalysisError as e:
        print('ANALYSIS-ERROR property=%s %s' % (pid, e))
        return 2
    except Exception:
        tb = traceback.format_exc()
        print('ANALYSIS-ERROR property=%s internal error in the analyser:\n%s' % (pid, tb))
        return 2


def selfcheck():
    """Parse /repo, validate anchors and known_findings; builds nothing."""
    try:
        prog = program()
        with open(os.path.join(VERIF, 'design', 'anchors.json')) as fh:
            anchors = json.load(fh)
        missing = []
        for pid, keys in anchors.items():
            for k in keys:
                if k not in prog.functions:
                    missing.append('%s:%s' % (pid, k))
        from .report import load_known
        kf = load_known()
        for k in kf:
            for fld in ('key', 'what', 'status', 'properties'):
                if fld not in k:
                    print('ANALYSIS-ERROR known_findings.json entry lacks %s: %r' % (fld, k))
                    return 2
        print('selfcheck: %d modules, %d functions, %d classes parsed from %s; %d anchors (%d missing); '
              '%d known-finding entries' % (len(prog.modules), len(prog.functions), len(prog.classes), prog.root,
                                            sum(len(v) for v in anchors.values()), len(missing), len(kf)))
        for m in missing:
            print('  missing anchor (would be an ANALYSIS-ERROR in its check): ' + m)
        return 0
    except Exception:
        print('ANALYSIS-ERROR selfcheck:\n' + traceback.format_exc())
        return 2


def main(argv=None):
    ap = argparse.ArgumentParser(prog='check')
    ap.add_argument('pid', nargs='?')
    ap.add_argument('--tier', default=os.environ.get('VERIF_TIER') or 'quick', choices=['quick', 'thorough'])
    ap.add_argument('--replay')
    ap.add_argument('--selfcheck', action='store_true')
    ap.add_argument('--selftest', action='store_true')
    ap.add_argument('--all', action='store_true')
    ap.add_argument('--repo')
    a = ap.parse_args(argv)
    if a.repo:
        os.environ['VERIF_REPO'] = a.repo
    if a.selfcheck:
        return selfcheck()
    if a.selftest:
        from . import selftest
        return selftest.main(a.pid)
    if a.replay:
        p = a.replay if os.path.isabs(a.replay) else os.path.join(VERIF, a.replay)
        with open(p) as fh:
            rec = json.load(fh)
        print('replaying %s instance %s' % (rec['property'], rec['key']))
        code = run_property(rec['property'], rec.get('tier', 'quick'), only_key=rec['key'])
        if code == 0:
            print('instance no longer reported on the current tree')
        return code
    if a.all:
        from . import props
        worst = 0
        for pid in sorted(props.CHECKS):
            worst = max(worst, run_property(pid, a.tier))
        return worst
    if not a.pid:
        ap.print_usage()
        return 2
    return run_property(a.pid, a.tier)


if __name__ == '__main__':
    try:
        code = main()
    except SystemExit:
        raise
    except BaseException as ex:          # a failure of the analyser itself (import error, bug) is never reported as a violation
        import traceback
        traceback.print_exc()
        print('ANALYSIS-ERROR internal error of the analyser: %s: %s' % (type(ex).__name__, ex))
        code = 2
    sys.exit(code)
