"""Term normalisation for table rules: expressions -> polynomials over opaque atoms.

poly(e): a canonical form {monomial: coefficient} of an expression built from + - * / ** unary-minus over atoms.
Atoms are the canonical source text of every other sub-expression (names, subscripts, calls with normalised
arguments, attribute chains).  Special atoms with algebraic behaviour:
  cross(a, b)   anti-commutative: arguments ordered, sign extracted
  dot(a, b)     commutative
  A @ B @ ...   ordered word; transposition distributes ((A@B).T -> B.T@A.T), scalar signs are pulled out
  x.T.T -> x ;  -(x) pulls the sign;  skew(-x) -> -skew(x);  (numeric literals folded)
No evaluation of the program takes place: this is value numbering on the syntax tree."""
import ast
from fractions import Fraction

from .pattern import canon


class Unrecognised(Exception):
    pass


def _num(e):
    if isinstance(e, ast.Constant) and isinstance(e.value, (int, float)) and not isinstance(e.value, bool):
        v = e.value
        if isinstance(v, float) and v == int(v):
            v = int(v)
        return Fraction(v) if isinstance(v, int) else Fraction(v).limit_denominator(10**9)
    return None


class Poly:
    """dict monomial -> Fraction; monomial = tuple of sorted (atom, power)"""

    def __init__(self, terms=None):
        self.t = {}
        if terms:
            for k, v in terms.items():
                if v != 0:
                    self.t[k] = v

    @staticmethod
    def const(c):
        return Poly({(): Fraction(c)})

    @staticmethod
    def atom(a):
        return Poly({((a, 1),): Fraction(1)})

    def __add__(self, o):
        r = dict(self.t)
        for k, v in o.t.items():
            r[k] = r.get(k, 0) + v
        return Poly(r)

    def __neg__(self):
        return Poly({k: -v for k, v in self.t.items()})

    def __sub__(self, o):
        return self + (-o)

    def __mul__(self, o):
        r = {}
        for k1, v1 in self.t.items():
            for k2, v2 in o.t.items():
                d = dict(k1)
                for a, p in k2:
                    d[a] = d.get(a, 0) + p
                k = tuple(sorted((a, p) for a, p in d.items() if p != 0))
                r[k] = r.get(k, 0) + v1 * v2
        return Poly(r)

    def scale(self, c):
        return Poly({k: v * c for k, v in self.t.items()})

    def is_const(self):
        return all(k == () for k in self.t)

    def const_value(self):
        return self.t.get((), Fraction(0)) if self.is_const() else None

    def __eq__(self, o):
        return isinstance(o, Poly) and self.t == o.t

    def __hash__(self):
        return hash(self.key())

    def key(self):
        return tuple(sorted((k, str(v)) for k, v in self.t.items()))

    def single_atom(self):
        """(sign, atom) if the polynomial is +-1 * one atom"""
        if len(self.t) == 1:
            (k, v), = self.t.items()
            if len(k) == 1 and k[0][1] == 1 and v in (1, -1):
                return (int(v), k[0][0])
        return None

    def __str__(self):
        if not self.t:
            return '0'
        parts = []
        for k, v in sorted(self.t.items(), key=lambda kv: str(kv[0])):
            mon = '*'.join(a if p == 1 else '%s**%d' % (a, p) for a, p in k)
            if not mon:
                parts.append(str(v))
            elif v == 1:
                parts.append(mon)
            elif v == -1:
                parts.append('-' + mon)
            else:
                parts.append('%s*%s' % (v, mon))
        return ' + '.join(parts).replace('+ -', '- ')

    __repr__ = __str__


ZERO = Poly()
ONE = Poly.const(1)


def _cmul(a, b):
    if isinstance(a, Poly) or isinstance(b, Poly):
        pa = a if isinstance(a, Poly) else Poly.const(a)
        pb = b if isinstance(b, Poly) else Poly.const(b)
        return pa * pb
    return a * b


def _capply(p, c):
    return p * c if isinstance(c, Poly) else p.scale(c)


class Normaliser:
    """Works on *canonical* ASTs (pattern.canon): callee names are short names."""

    def __init__(self, rename=None, odd_funcs=('skew', 'unitvec_dir', 'sin', 'transl', 'vex'), subst=None, noncomm=False):
        self.rename = rename or {}
        self.odd = set(odd_funcs)
        self.subst = subst or {}
        self.noncomm = noncomm      # treat `*` between non-constant factors as an ordered (quaternion) product

    def nc_word(self, e):
        """ordered product word for non-commutative `*`: -> (coefficient Fraction, [factors])"""
        if isinstance(e, ast.UnaryOp) and isinstance(e.op, ast.USub):
            c, w = self.nc_word(e.operand)
            return (-c, w)
        if isinstance(e, ast.BinOp) and isinstance(e.op, ast.Mult):
            c1, w1 = self.nc_word(e.left)
            c2, w2 = self.nc_word(e.right)
            return (c1 * c2, w1 + w2)
        n = _num(e)
        if n is not None:
            return (n, [])
        p = self.poly(e)
        cv = p.const_value()
        if cv is not None:
            return (cv, [])
        sa = p.single_atom()
        if sa is not None:
            return (Fraction(sa[0]), [sa[1]])
        return (Fraction(1), ['(' + str(p) + ')'])

    SCALAR_FUNCS = {'sin', 'cos', 'tan', 'sqrt', 'norm', 'abs', 'dot', 'trace', 'det', 'acos', 'asin', 'atan2', 'atan',
                    'float', 'normsq', 'inner', 'len', 'sum'}

    def is_scalar_expr(self, e):
        """syntactically scalar: numbers, scalar functions, names declared scalar, arithmetic of those"""
        if _num(e) is not None:
            return True
        if isinstance(e, ast.Name):
            return e.id in getattr(self, 'scalars', ())
        if isinstance(e, ast.UnaryOp):
            return self.is_scalar_expr(e.operand)
        if isinstance(e, ast.BinOp) and not isinstance(e.op, ast.MatMult):
            return self.is_scalar_expr(e.left) and self.is_scalar_expr(e.right)
        if isinstance(e, ast.Call) and isinstance(e.func, ast.Name) and e.func.id in self.SCALAR_FUNCS:
            return True
        return False

    # ---- words for matrix products
    def word(self, e):
        """-> (coefficient: int or Poly, [factor strings]) for an expression used as a matrix factor"""
        if isinstance(e, ast.UnaryOp) and isinstance(e.op, ast.USub):
            s, w = self.word(e.operand)
            return (-s if not isinstance(s, Poly) else -s, w)
        if isinstance(e, ast.BinOp) and isinstance(e.op, ast.MatMult):
            s1, w1 = self.word(e.left)
            s2, w2 = self.word(e.right)
            return (_cmul(s1, s2), w1 + w2)
        if isinstance(e, ast.BinOp) and isinstance(e.op, ast.Mult) and not self.noncomm:
            # scalar * matrix inside a product chain: pull the scalar out
            for a, b in ((e.left, e.right), (e.right, e.left)):
                if self.is_scalar_expr(a):
                    s, w = self.word(b)
                    return (_cmul(self.poly(a), s), w)
        if isinstance(e, ast.BinOp) and isinstance(e.op, ast.Div) and self.is_scalar_expr(e.right):
            s, w = self.word(e.left)
            return (_cmul(self.poly(ast.BinOp(left=ast.Constant(value=1), op=ast.Div(), right=e.right)), s), w)
        if isinstance(e, ast.Attribute) and e.attr == 'T':
            s, w = self.word(e.value)
            return (s, [self._tr(x) for x in reversed(w)])
        if isinstance(e, ast.Call) and isinstance(e.func, ast.Name) and e.func.id in ('transpose',) and len(e.args) == 1:
            s, w = self.word(e.args[0])
            return (s, [self._tr(x) for x in reversed(w)])
        p = self.poly(e)
        sa = p.single_atom()
        if sa is not None:
            return (sa[0], [sa[1]])
        return (1, ['(' + str(p) + ')'])

    @staticmethod
    def _tr(x):
        return x[:-2] if x.endswith('.T') else x + '.T'

    # ---- atoms
    def atom_str(self, e):
        """canonical text of a non-arithmetic expression (arguments normalised recursively)"""
        if isinstance(e, ast.Name):
            return self.rename.get(e.id, e.id)
        if isinstance(e, ast.Constant):
            return repr(e.value)
        if isinstance(e, ast.Attribute):
            return self.atom_of(e.value) + '.' + e.attr
        if isinstance(e, ast.Subscript):
            if isinstance(e.value, ast.Name) and e.value.id == 'r_' and isinstance(e.slice, ast.Tuple):
                # r_[a, [b, c]] concatenates: a nested display contributes its elements
                elts = []
                for x in e.slice.elts:
                    elts.extend(x.elts if isinstance(x, (ast.List, ast.Tuple)) else [x])
                return 'r_[%s]' % ', '.join(str(self.poly(x)) for x in elts)
            return '%s[%s]' % (self.atom_of(e.value), self.slice_str(e.slice))
        if isinstance(e, ast.Call) and isinstance(e.func, ast.Name) and e.func.id == 'array' and len(e.args) == 1 and not e.keywords \
                and isinstance(e.args[0], (ast.List, ast.Tuple)) and len(e.args[0].elts) >= 2 \
                and not any(isinstance(x, (ast.List, ast.Tuple, ast.Starred)) for x in e.args[0].elts):
            # a 1-D array from a flat display of scalars is the same vector as r_[...]
            return 'r_[%s]' % ', '.join(str(self.poly(x)) for x in e.args[0].elts)
        if isinstance(e, ast.Call) and isinstance(e.func, ast.Name) and e.func.id in ('eye', 'identity') and not any(k.arg is None for k in e.keywords) \
                and 1 <= len(e.args) <= 2 and (len(e.args) == 1 or (e.func.id == 'eye' and ast.dump(e.args[0]) == ast.dump(e.args[1]))):
            # eye(n) == eye(n, n) == identity(n)
            kws = ['%s=%s' % (k.arg, str(self.poly(k.value))) for k in sorted(e.keywords, key=lambda k: k.arg)]
            return 'eye(%s)' % ', '.join([str(self.poly(e.args[0]))] + kws)
        if isinstance(e, ast.Call):
            fn = e.func.id if isinstance(e.func, ast.Name) else self.atom_str(e.func)
            pos, kw = list(e.args), [k for k in e.keywords]
            if isinstance(e.func, ast.Name) and kw and all(k.arg for k in kw) and not any(isinstance(a, ast.Starred) for a in pos):
                # f(a, p=b) and f(a, b) are the same call when p is the callee's next positional parameter
                from .pattern import _plain_signature
                sig = _plain_signature(fn)
                if sig is None and fn == 'cls':
                    sig = self.rename.get('__ctor__')
                if sig is not None:
                    byname = {k.arg: k for k in kw}
                    while len(pos) < len(sig) and sig[len(pos)] in byname:
                        pos.append(byname.pop(sig[len(pos)]).value)
                    kw = list(byname.values())
            args = [str(self.poly(a)) for a in pos]
            kws = ['%s=%s' % (k.arg, str(self.poly(k.value))) for k in sorted(kw, key=lambda k: k.arg or '')]
            return '%s(%s)' % (fn, ', '.join(args + kws))
        if isinstance(e, (ast.Tuple, ast.List)):
            return '[' + ', '.join(str(self.poly(x)) for x in e.elts) + ']'
        return ast.unparse(e)

    def atom_of(self, e):
        p = self.poly(e)
        sa = p.single_atom()
        if sa is not None and sa[0] == 1:
            return sa[1]
        return '(' + str(p) + ')'

    def slice_str(self, s):
        if isinstance(s, ast.Tuple):
            return ', '.join(self.slice_str(x) for x in s.elts)
        if isinstance(s, ast.Slice):
            def b(x):
                if x is None:
                    return ''
                return str(self.poly(x))
            lo = b(s.lower)
            if lo == '0':
                lo = ''
            r = '%s:%s' % (lo, b(s.upper))
            if s.step is not None:
                r += ':' + b(s.step)
            return r
        return str(self.poly(s))

    MATRIX_MARKS = ('eye(', 'skew(', 'skewa(', ' @ ', '.T', 'rotx(', 'roty(', 'rotz(', 'rot2(', 'r2t(', 't2r(', 'q2r(', 'identity(')

    def _matrix_like(self, e):
        """syntactically 2-D: the normal form of e mentions a matrix constructor / product / transpose in EVERY term"""
        p = self.poly(e)
        if not p.t:
            return False
        for k in p.t:
            if not any(any(m in a for m in self.MATRIX_MARKS) for a, _ in k):
                return False
        return True

    # ---- polynomials
    def poly(self, e):
        n = _num(e)
        if n is not None:
            return Poly.const(n)
        if isinstance(e, ast.Name) and e.id in self.subst:
            return self.subst[e.id]
        if isinstance(e, ast.UnaryOp):
            if isinstance(e.op, ast.USub):
                return -self.poly(e.operand)
            if isinstance(e.op, ast.UAdd):
                return self.poly(e.operand)
        if isinstance(e, ast.BinOp):
            if isinstance(e.op, ast.Add):
                return self.poly(e.left) + self.poly(e.right)
            if isinstance(e.op, ast.Sub):
                return self.poly(e.left) - self.poly(e.right)
            if isinstance(e.op, ast.Mult):
                if self.noncomm:
                    c, w = self.nc_word(e)
                    if not w:
                        return Poly.const(c)
                    return Poly.atom(' * '.join(w)).scale(c)
                return self.poly(e.left) * self.poly(e.right)
            if isinstance(e.op, ast.Div):
                d = self.poly(e.right)
                c = d.const_value()
                if c is not None and c != 0:
                    return self.poly(e.left).scale(1 / c)
                # division by a non-constant: multiply by the atom inv(<d>) ; pull a constant factor out of d
                dd = d
                lead = None
                if len(d.t) == 1:
                    (k, v), = d.t.items()
                    lead = v
                    dd = Poly({k: Fraction(1)})
                num = self.poly(e.left)
                if lead is not None:
                    num = num.scale(1 / lead)
                # x / x -> 1 for single-monomial denominators dividing every term is not attempted
                return num * Poly.atom('inv(%s)' % str(dd))
            if isinstance(e.op, ast.Pow):
                ex = _num(e.right)
                if ex is not None and ex.denominator == 1 and 0 <= ex <= 6:
                    r = ONE
                    b = self.poly(e.left)
                    for _ in range(int(ex)):
                        r = r * b
                    return r
                return Poly.atom('pow(%s, %s)' % (str(self.poly(e.left)), str(self.poly(e.right))))
            if isinstance(e.op, ast.MatMult):
                s, w = self.word(e)
                return _capply(Poly.atom(' @ '.join(w)), s)
        if isinstance(e, ast.Attribute) and e.attr == 'T':
            s, w = self.word(e)
            return _capply(Poly.atom(' @ '.join(w)), s)
        if isinstance(e, ast.Call) and isinstance(e.func, ast.Attribute) and e.func.attr == 'dot' and len(e.args) == 1 and not e.keywords \
                and not (isinstance(e.func.value, ast.Name) and e.func.value.id in ('np', 'numpy')) and self._matrix_like(e.func.value):
            # A.dot(b) with a 2-D receiver is the matrix product
            return self.poly(ast.BinOp(left=e.func.value, op=ast.MatMult(), right=e.args[0]))
        if isinstance(e, ast.Call) and isinstance(e.func, ast.Name):
            fn = e.func.id
            if fn == 'cross' and len(e.args) == 2:
                a, b = self.poly(e.args[0]), self.poly(e.args[1])
                sa, sb = a.single_atom(), b.single_atom()
                if sa and sb:
                    sign = sa[0] * sb[0]
                    x, y = sa[1], sb[1]
                    if x == y:
                        return ZERO
                    if x > y:
                        x, y = y, x
                        sign = -sign
                    return Poly.atom('cross(%s, %s)' % (x, y)).scale(sign)
                return Poly.atom('cross(%s, %s)' % (str(a), str(b)))
            if fn == 'dot' and len(e.args) == 2 and not e.keywords and (self._matrix_like(e.args[0]) or self._matrix_like(e.args[1])):
                # np.dot with a 2-D operand is the matrix product
                return self.poly(ast.BinOp(left=e.args[0], op=ast.MatMult(), right=e.args[1]))
            if fn in ('dot', 'inner') and len(e.args) == 2:
                a, b = self.poly(e.args[0]), self.poly(e.args[1])
                sa, sb = a.single_atom(), b.single_atom()
                if sa and sb:
                    x, y = sorted([sa[1], sb[1]])
                    return Poly.atom('dot(%s, %s)' % (x, y)).scale(sa[0] * sb[0])
                x, y = sorted([str(a), str(b)])
                return Poly.atom('dot(%s, %s)' % (x, y))
            if fn in self.odd and len(e.args) >= 1:
                a = self.poly(e.args[0])
                sa = a.single_atom()
                if sa and sa[0] == -1:
                    rest = [str(self.poly(x)) for x in e.args[1:]]
                    return Poly.atom('%s(%s)' % (fn, ', '.join([sa[1]] + rest))).scale(-1)
            if fn in ('abs', 'norm') and len(e.args) == 1:
                a = self.poly(e.args[0])
                sa = a.single_atom()
                if sa:
                    return Poly.atom('%s(%s)' % (fn, sa[1]))
                # |−x| = |x| for a general polynomial: canonical sign = make the leading term positive
                if a.t:
                    lead = sorted(a.t.items(), key=lambda kv: str(kv[0]))[0][1]
                    if lead < 0:
                        a = -a
                return Poly.atom('%s(%s)' % (fn, str(a)))
            if fn == 'float' and len(e.args) == 1:
                return self.poly(e.args[0])
        if isinstance(e, ast.Compare) and len(e.ops) == 1:
            l, r = self.poly(e.left), self.poly(e.comparators[0])
            op = type(e.ops[0]).__name__
            if op in ('Gt', 'GtE'):
                l, r = r, l
                op = {'Gt': 'Lt', 'GtE': 'LtE'}[op]
            if op in ('Eq', 'NotEq') and str(l) > str(r):
                l, r = r, l
            return Poly.atom('%s(%s, %s)' % (op, l, r))
        if isinstance(e, ast.IfExp):
            raise Unrecognised('conditional expression')
        return Poly.atom(self.atom_str(e))


# --------------------------------------------------------------------------- matrix / vector literals
def matrix_literal(e):
    """np.array([[..],[..]]) / array([...]) / nested list  -> list of rows (list of AST), or None"""
    if isinstance(e, ast.Call) and isinstance(e.func, ast.Name) and e.func.id in ('array', 'asarray', 'Matrix') and e.args:
        e = e.args[0]
    if isinstance(e, (ast.List, ast.Tuple)) and e.elts and all(isinstance(r, (ast.List, ast.Tuple)) for r in e.elts):
        rows = [list(r.elts) for r in e.elts]
        if len({len(r) for r in rows}) == 1:
            return rows
    return None


def vector_literal(e):
    """np.r_[a, b, c] / np.array([a, b, c]) / [a, b, c] -> list of AST entries, or None"""
    if isinstance(e, ast.Subscript) and isinstance(e.value, ast.Name) and e.value.id in ('r_',):
        s = e.slice
        return list(s.elts) if isinstance(s, ast.Tuple) else [s]
    if isinstance(e, ast.Call) and isinstance(e.func, ast.Name) and e.func.id in ('array', 'asarray', 'hstack') and e.args:
        a = e.args[0]
        if isinstance(a, (ast.List, ast.Tuple)) and not any(isinstance(x, (ast.List, ast.Tuple)) for x in a.elts):
            return list(a.elts)
    if isinstance(e, (ast.List, ast.Tuple)) and not any(isinstance(x, (ast.List, ast.Tuple)) for x in e.elts):
        return list(e.elts)
    return None


def parse_expr(s):
    return ast.parse(s, mode='eval').body


def table_from_source(rows_src, norm):
    """rows_src: list of list of source strings -> list of list of Poly"""
    return [[norm.poly(parse_expr(x)) for x in r] for r in rows_src]


def compare_tables(got, want):
    """-> list of (i, j, got, want) mismatches; shapes must agree"""
    if len(got) != len(want) or any(len(a) != len(b) for a, b in zip(got, want)):
        return None
    bad = []
    for i, (ra, rb) in enumerate(zip(got, want)):
        for j, (a, b) in enumerate(zip(ra, rb)):
            if a != b:
                bad.append((i, j, a, b))
    return bad
