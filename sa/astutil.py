"""Small AST helpers shared by the rules."""
import ast

from .model import Function, Class
from .scope import FuncInfo
from .callgraph import own_walk


def cname(fi, call_or_func):
    """Canonical name of a callee: repo function -> its bare name (and key via ckey), external ->
    dotted ('numpy.linalg.norm', 'math.sin'), builtin -> name, method on a value -> '.attr'."""
    fn = call_or_func.func if isinstance(call_or_func, ast.Call) else call_or_func
    t = fi.resolve(fn)
    if t.kind in ('func', 'method') and isinstance(t.obj, Function):
        return t.obj.name
    if t.kind == 'class' and isinstance(t.obj, Class):
        return t.obj.name
    if t.kind == 'external':
        return str(t.obj)
    if t.kind == 'builtin':
        return str(t.obj)
    if isinstance(fn, ast.Attribute):
        return '.' + fn.attr
    if isinstance(fn, ast.Name):
        return fn.id
    return '?'


def ckey(fi, call_or_func):
    fn = call_or_func.func if isinstance(call_or_func, ast.Call) else call_or_func
    t = fi.resolve(fn)
    if t.kind in ('func', 'method') and isinstance(t.obj, Function):
        return t.obj.key
    return None


def ctarget(fi, call_or_func):
    fn = call_or_func.func if isinstance(call_or_func, ast.Call) else call_or_func
    t = fi.resolve(fn)
    if t.kind in ('func', 'method') and isinstance(t.obj, Function):
        return t.obj
    return None


def is_super_call(e):
    return isinstance(e, ast.Call) and isinstance(e.func, ast.Name) and e.func.id == 'super'


def body_nodoc(fnode):
    b = list(fnode.body)
    if b and isinstance(b[0], ast.Expr) and isinstance(b[0].value, ast.Constant) and isinstance(b[0].value.value, str):
        b = b[1:]
    return b


def single_assignments(fnode):
    """name -> value expr for locals assigned exactly once by a plain `name = expr` (not in a loop
    body that also reads them, no augmented assignment, not a parameter)."""
    count = {}
    val = {}
    a = fnode.args
    params = {x.arg for x in a.posonlyargs + a.args + a.kwonlyargs}
    if a.vararg:
        params.add(a.vararg.arg)
    if a.kwarg:
        params.add(a.kwarg.arg)
    for n in own_walk(fnode):
        if isinstance(n, ast.Assign):
            for t in n.targets:
                if isinstance(t, ast.Name):
                    count[t.id] = count.get(t.id, 0) + 1
                    val[t.id] = n.value
                else:
                    for x in ast.walk(t):
                        if isinstance(x, ast.Name) and isinstance(x.ctx, ast.Store):
                            count[x.id] = count.get(x.id, 0) + 2
        elif isinstance(n, (ast.AugAssign, ast.AnnAssign)):
            for x in ast.walk(n.target):
                if isinstance(x, ast.Name):
                    count[x.id] = count.get(x.id, 0) + 2
        elif isinstance(n, (ast.For, ast.comprehension)):
            for x in ast.walk(n.target):
                if isinstance(x, ast.Name):
                    count[x.id] = count.get(x.id, 0) + 2
        elif isinstance(n, ast.NamedExpr):
            count[n.target.id] = count.get(n.target.id, 0) + 2
    return {k: v for k, v in val.items() if count.get(k) == 1 and k not in params}


def kwarg(call, name, pos=None):
    """Value AST of keyword `name` (or positional index pos) of a call, else None."""
    for kw in call.keywords:
        if kw.arg == name:
            return kw.value
    if pos is not None and len(call.args) > pos and not any(isinstance(a, ast.Starred) for a in call.args[:pos + 1]):
        return call.args[pos]
    return None


def names(e):
    return {n.id for n in ast.walk(e) if isinstance(n, ast.Name)}


def src(e, n=100):
    try:
        s = ast.unparse(e)
    except Exception:
        s = ast.dump(e)
    return s if len(s) <= n else s[:n] + '...'


def if_chain(stmt):
    """Flatten if/elif/else: returns ([(test, body)], else_body or None)."""
    arms = []
    node = stmt
    while True:
        arms.append((node.test, node.body))
        if len(node.orelse) == 1 and isinstance(node.orelse[0], ast.If):
            node = node.orelse[0]
        elif not node.orelse and getattr(node, '_cont', None):
            # early-exit form: the rest of the block is the else part (see normalize.annotate_continuations)
            cont = node._cont
            if isinstance(cont[0], ast.If) and (len(cont) == 1 or getattr(cont[0], '_cont', None) is not None or cont[0].orelse):
                if len(cont) == 1 or getattr(cont[0], '_cont', None) is not None:
                    node = cont[0]
                    continue
            return arms, list(cont)
        else:
            return arms, (node.orelse or None)


def is_chain_head(stmt):
    """False for an `if` that is a later arm of an early-exit chain (its predecessor in the block continues into it)"""
    return not getattr(stmt, '_chained', False)


def ends_in_raise(body):
    if not body:
        return False
    last = body[-1]
    if isinstance(last, ast.Raise):
        return True
    if isinstance(last, ast.If):
        arms, els = if_chain(last)
        return els is not None and all(ends_in_raise(b) for (_, b) in arms) and ends_in_raise(els)
    return False
