"""Statement-level control-flow graph and small dataflow analyses (pure stdlib)."""
import ast


class Node:
    __slots__ = ('id', 'kind', 'ast', 'lineno')

    def __init__(self, i, kind, a=None):
        self.id = i
        self.kind = kind   # entry exit raise falloff stmt if while for with return raiseS assert handler
        self.ast = a
        self.lineno = getattr(a, 'lineno', 0)

    def __repr__(self):
        return 'N%d<%s@%d>' % (self.id, self.kind, self.lineno)


class CFG:
    def __init__(self, fnode):
        self.fnode = fnode
        self.nodes = []
        self.succ = {}
        self.pred = {}
        self.entry = self._new('entry')
        self.exit = self._new('exit')
        self.raise_exit = self._new('raise')
        self.falloff = self._new('falloff')
        self._loops = []      # (continue_target_id, break_list)
        self._handlers = []   # list of lists of handler entry ids
        out = self._seq(fnode.body, [(self.entry.id, None)])
        self._connect(out, self.falloff.id)
        self._edge(self.falloff.id, self.exit.id, None)
        self.stmt_node = {}
        for n in self.nodes:
            if n.ast is not None:
                self.stmt_node.setdefault(id(n.ast), n)

    def _new(self, kind, a=None):
        n = Node(len(self.nodes), kind, a)
        self.nodes.append(n)
        self.succ[n.id] = []
        self.pred[n.id] = []
        return n

    def _edge(self, a, b, label):
        self.succ[a].append((b, label))
        self.pred[b].append((a, label))

    def _connect(self, dangling, dst):
        for (src, label) in dangling:
            self._edge(src, dst, label)

    def _raise_targets(self):
        if self._handlers:
            return list(self._handlers[-1]) + [None]   # may also propagate (unmatched type)
        return [None]

    def _to_raise(self, src, label=None):
        for h in self._raise_targets():
            self._edge(src, self.raise_exit.id if h is None else h, label)

    def _seq(self, stmts, dangling):
        for st in stmts:
            dangling = self._stmt(st, dangling)
        return dangling

    def _stmt(self, st, dangling):
        if isinstance(st, ast.If):
            n = self._new('if', st)
            self._connect(dangling, n.id)
            t = self._seq(st.body, [(n.id, (st.test, True))])
            f = self._seq(st.orelse, [(n.id, (st.test, False))])
            return t + f
        if isinstance(st, ast.While):
            n = self._new('while', st)
            self._connect(dangling, n.id)
            brk = []
            self._loops.append((n.id, brk))
            b = self._seq(st.body, [(n.id, (st.test, True))])
            self._loops.pop()
            self._connect(b, n.id)
            out = [(n.id, (st.test, False))]
            if isinstance(st.test, ast.Constant) and st.test.value:
                out = []
            o = self._seq(st.orelse, out)
            return o + brk
        if isinstance(st, (ast.For, ast.AsyncFor)):
            n = self._new('for', st)
            self._connect(dangling, n.id)
            brk = []
            self._loops.append((n.id, brk))
            b = self._seq(st.body, [(n.id, ('iter', True))])
            self._loops.pop()
            self._connect(b, n.id)
            o = self._seq(st.orelse, [(n.id, ('iter', False))])
            return o + brk
        if isinstance(st, (ast.With, ast.AsyncWith)):
            n = self._new('with', st)
            self._connect(dangling, n.id)
            return self._seq(st.body, [(n.id, None)])
        if isinstance(st, ast.Try) or st.__class__.__name__ == 'TryStar':
            hs = []
            for h in st.handlers:
                hn = self._new('handler', h)
                hs.append(hn)
            self._handlers.append([h.id for h in hs])
            first = len(self.nodes)
            b = self._seq(st.body, dangling)
            last = len(self.nodes)
            self._handlers.pop()
            # every statement node created in the body may raise into each handler
            for nid in range(first, last):
                if self.nodes[nid].kind in ('stmt', 'return', 'if', 'while', 'for', 'with', 'assert'):
                    for h in hs:
                        self._edge(nid, h.id, ('exc', True))
            b = self._seq(st.orelse, b)
            outs = list(b)
            for h, hn in zip(st.handlers, hs):
                outs += self._seq(h.body, [(hn.id, None)])
            if st.finalbody:
                outs = self._seq(st.finalbody, outs)
            return outs
        if isinstance(st, ast.Return):
            n = self._new('return', st)
            self._connect(dangling, n.id)
            self._edge(n.id, self.exit.id, None)
            return []
        if isinstance(st, ast.Raise):
            n = self._new('raiseS', st)
            self._connect(dangling, n.id)
            self._to_raise(n.id)
            return []
        if isinstance(st, ast.Assert):
            n = self._new('assert', st)
            self._connect(dangling, n.id)
            self._to_raise(n.id, (st.test, False))
            return [(n.id, (st.test, True))]
        if isinstance(st, ast.Break):
            n = self._new('stmt', st)
            self._connect(dangling, n.id)
            if self._loops:
                self._loops[-1][1].append((n.id, None))
            return []
        if isinstance(st, ast.Continue):
            n = self._new('stmt', st)
            self._connect(dangling, n.id)
            if self._loops:
                self._edge(n.id, self._loops[-1][0], None)
            return []
        if st.__class__.__name__ == 'Match':
            n = self._new('stmt', st)
            self._connect(dangling, n.id)
            outs = [(n.id, None)]
            for c in st.cases:
                outs += self._seq(c.body, [(n.id, None)])
            return outs
        # simple statement (Assign, Expr, AugAssign, Delete, Import, FunctionDef, ClassDef, Pass...)
        n = self._new('stmt', st)
        self._connect(dangling, n.id)
        return [(n.id, None)]

    # ------------------------------------------------------------------ queries
    def node_of(self, st):
        return self.stmt_node.get(id(st))

    def reachable(self, start=None):
        seen = set()
        st = [self.entry.id if start is None else start]
        while st:
            x = st.pop()
            if x in seen:
                continue
            seen.add(x)
            for (d, _) in self.succ[x]:
                st.append(d)
        return seen

    def dominators(self):
        reach = self.reachable()
        ids = sorted(reach)
        dom = {i: set(ids) for i in ids}
        dom[self.entry.id] = {self.entry.id}
        changed = True
        while changed:
            changed = False
            for i in ids:
                if i == self.entry.id:
                    continue
                ps = [p for (p, _) in self.pred[i] if p in reach]
                if not ps:
                    continue
                new = set.intersection(*[dom[p] for p in ps]) | {i}
                if new != dom[i]:
                    dom[i] = new
                    changed = True
        return dom

    def paths_to_exit_avoiding(self, avoid_pred, start=None, target=None):
        """Is there a path entry -> target (default: normal exit) on which no node satisfies
        avoid_pred?  Returns a witness path (list of nodes) or None."""
        tgt = self.exit.id if target is None else target
        s0 = self.entry.id if start is None else start
        prev = {s0: None}
        stack = [s0]
        while stack:
            x = stack.pop()
            if x == tgt:
                path = []
                while x is not None:
                    path.append(self.nodes[x])
                    x = prev[x]
                return list(reversed(path))
            for (d, _) in self.succ[x]:
                if d in prev:
                    continue
                if d != tgt and avoid_pred(self.nodes[d]):
                    continue
                prev[d] = x
                stack.append(d)
        return None


def forward(cfg, init, transfer, join, edge_transfer=None, bottom=None):
    """Generic forward dataflow. IN[entry]=init. transfer(node, IN)->OUT.
    edge_transfer(src_node, label, OUT)->value along edge. join(list of values)->value."""
    IN = {cfg.entry.id: init}
    OUT = {}
    work = [cfg.entry.id]
    inq = {cfg.entry.id}
    it = 0
    while work:
        it += 1
        if it > 200000:
            raise RuntimeError('dataflow did not converge')
        x = work.pop(0)
        inq.discard(x)
        n = cfg.nodes[x]
        o = transfer(n, IN[x])
        if x in OUT and OUT[x] == o:
            continue
        OUT[x] = o
        for (d, label) in cfg.succ[x]:
            vals = []
            for (p, pl) in cfg.pred[d]:
                if p in OUT:
                    v = OUT[p]
                    if edge_transfer is not None:
                        v = edge_transfer(cfg.nodes[p], pl, v)
                    vals.append(v)
            nv = join(vals)
            if d not in IN or IN[d] != nv:
                IN[d] = nv
                if d not in inq:
                    work.append(d)
                    inq.add(d)
            elif d not in OUT and d not in inq:
                work.append(d)
                inq.add(d)
    return IN, OUT


# ---------------------------------------------------------------------- definitions
def stmt_defs(node):
    """Names (re)bound by a CFG node in the function's own scope."""
    a = node.ast
    out = set()
    if a is None:
        return out
    k = node.kind
    if k in ('if', 'while', 'assert', 'return', 'raiseS'):
        _walrus(a.test if k in ('if', 'while', 'assert') else a, out)
        return out
    if k == 'for':
        _tnames(a.target, out)
        return out
    if k == 'with':
        for it in a.items:
            if it.optional_vars is not None:
                _tnames(it.optional_vars, out)
        return out
    if k == 'handler':
        if a.name:
            out.add(a.name)
        return out
    if isinstance(a, ast.Assign):
        for t in a.targets:
            _tnames(t, out)
    elif isinstance(a, (ast.AugAssign, ast.AnnAssign)):
        _tnames(a.target, out)
    elif isinstance(a, (ast.FunctionDef, ast.AsyncFunctionDef, ast.ClassDef)):
        out.add(a.name)
    elif isinstance(a, ast.Import):
        for x in a.names:
            out.add(x.asname or x.name.split('.')[0])
    elif isinstance(a, ast.ImportFrom):
        for x in a.names:
            out.add(x.asname or x.name)
    elif isinstance(a, ast.Delete):
        pass
    return out


def _tnames(t, out):
    if isinstance(t, ast.Name):
        out.add(t.id)
    elif isinstance(t, (ast.Tuple, ast.List)):
        for e in t.elts:
            _tnames(e, out)
    elif isinstance(t, ast.Starred):
        _tnames(t.value, out)


def _walrus(e, out):
    if e is None:
        return
    for n in ast.walk(e):
        if isinstance(n, ast.NamedExpr) and isinstance(n.target, ast.Name):
            out.add(n.target.id)


def reaching_defs(cfg, params):
    """IN[node] = frozenset of (name, def_node_id); params are defined at entry (id of entry)."""
    init = frozenset((p, cfg.entry.id) for p in params)

    def transfer(n, inv):
        d = stmt_defs(n)
        if not d:
            return inv
        return frozenset(x for x in inv if x[0] not in d) | frozenset((nm, n.id) for nm in d)

    def join(vals):
        r = frozenset()
        for v in vals:
            r = r | v
        return r
    IN, OUT = forward(cfg, init, transfer, join)
    return IN, OUT


def header_expr(node):
    """The expression(s) evaluated *at* a CFG node (not the nested bodies)."""
    a = node.ast
    k = node.kind
    if a is None:
        return []
    if k in ('if', 'while'):
        return [a.test]
    if k == 'assert':
        return [a.test] + ([a.msg] if a.msg else [])
    if k == 'for':
        return [a.iter]
    if k == 'with':
        return [it.context_expr for it in a.items]
    if k == 'handler':
        return [a.type] if a.type is not None else []
    if k == 'return':
        return [a.value] if a.value is not None else []
    if k == 'raiseS':
        return [x for x in (a.exc, a.cause) if x is not None]
    if isinstance(a, (ast.FunctionDef, ast.AsyncFunctionDef)):
        return list(a.decorator_list) + list(a.args.defaults) + [d for d in a.args.kw_defaults if d is not None]
    if isinstance(a, ast.ClassDef):
        return list(a.decorator_list) + list(a.bases)
    return [a]


def cond_key(test):
    return ast.dump(test)


def names_in(e):
    return {n.id for n in ast.walk(e) if isinstance(n, ast.Name)}


def must_facts(cfg):
    """For each node: set of (cond_key, polarity, test_ast) that hold on every path reaching it.
    A fact is killed when a name occurring in its test is rebound."""
    TOP = None   # universe marker

    def transfer(n, inv):
        if inv is TOP:
            return TOP
        d = stmt_defs(n)
        out = inv if not d else frozenset(f for f in inv if not (f[3] & d))
        a = getattr(n, 'ast', None)
        if n.kind == 'stmt' and isinstance(a, ast.Expr) and isinstance(a.value, ast.Call):
            # a call of a guard helper (a function whose body-level `if T: raise` / `assert T` statements test its parameters):
            # after the call has returned, the guards hold for the actual arguments
            gs = _call_guards(cfg, a.value)
            if gs:
                new = set(out)
                for (t, p) in gs:
                    for (t2, p2) in _split(t, p):
                        new.add((cond_key(t2), p2, _Box(t2), frozenset(names_in(t2))))
                out = frozenset(new)
        return out

    pure = pure_locals(cfg.fnode) if getattr(cfg, 'fnode', None) is not None else {}

    def edge(src, label, v):
        if v is TOP:
            return TOP
        if label is None or not isinstance(label[0], ast.AST):
            return v
        test, pol = label
        new = set(v)
        for (t, p) in _split(test, pol):
            new.add((cond_key(t), p, _Box(t), frozenset(names_in(t))))
            if pure and (names_in(t) & set(pure)):
                # copy propagation: `nleft == 1` with the single definition nleft = len(left) is also the fact len(left) == 1
                t2 = _subst_pure(t, pure)
                for (t3, p3) in _split(t2, p):
                    new.add((cond_key(t3), p3, _Box(t3), frozenset(names_in(t3) | names_in(t))))
        return frozenset(new)

    def join(vals):
        vs = [v for v in vals if v is not TOP]
        if not vs:
            return TOP
        r = vs[0]
        for v in vs[1:]:
            r = r & v
        return r
    IN, OUT = forward(cfg, frozenset(), transfer, join, edge_transfer=edge)
    res = {}
    for k, v in IN.items():
        res[k] = frozenset() if v is TOP else _close_disjunctions(v)
    return res


def _close_disjunctions(fs):
    """(A or B) holds and A is false  =>  B holds;  not (A and B) holds and A holds  =>  B is false"""
    if not any(isinstance(f[2].ast, ast.BoolOp) for f in fs):
        return fs
    facts = set(fs)
    have = {(f[0], f[1]) for f in facts}
    changed = True
    while changed:
        changed = False
        for f in list(facts):
            t, pol = f[2].ast, f[1]
            if not isinstance(t, ast.BoolOp):
                continue
            want_or = isinstance(t.op, ast.Or) and pol
            want_and = isinstance(t.op, ast.And) and not pol
            if not (want_or or want_and):
                continue
            # for Or-true: disjuncts known false are eliminated; for And-false: conjuncts known true are eliminated
            rest = []
            for x in t.values:
                atoms = list(_split(x, not want_or))          # the condition under which x is eliminated
                if all((cond_key(a), p) in have for (a, p) in atoms):
                    continue
                rest.append(x)
            if len(rest) == 1:
                for (a, p) in _split(rest[0], want_or):
                    k = (cond_key(a), p)
                    if k not in have:
                        have.add(k)
                        facts.add((cond_key(a), p, _Box(a), f[3] | frozenset(names_in(a))))
                        changed = True
    return frozenset(facts)


def pure_locals(fnode, keep=()):
    """name -> defining expression, for locals of the function that are bound exactly once by `name = <expr>`, are never
    mutated (no subscript/attribute store on them, not an augmented-assignment target) and whose expression is not an array
    allocation and mentions no name that is bound after the definition.  Substituting such a local by its definition does
    not change the meaning of a condition."""
    counts = {}
    defs = {}
    mutated = set()
    params = {a.arg for a in fnode.args.posonlyargs + fnode.args.args + fnode.args.kwonlyargs}
    if fnode.args.vararg:
        params.add(fnode.args.vararg.arg)
    if fnode.args.kwarg:
        params.add(fnode.args.kwarg.arg)
    bind_lines = {}

    def bind(name, line):
        counts[name] = counts.get(name, 0) + 1
        bind_lines.setdefault(name, []).append(line)

    for p_ in params:
        bind(p_, 0)
    for n in ast.walk(fnode):
        if n is fnode:
            continue
        if isinstance(n, ast.Assign):
            for t in n.targets:
                for x in ast.walk(t):
                    if isinstance(x, ast.Name) and isinstance(x.ctx, ast.Store):
                        bind(x.id, n.lineno)
                if isinstance(t, (ast.Subscript, ast.Attribute)):
                    b = t
                    while isinstance(b, (ast.Subscript, ast.Attribute)):
                        b = b.value
                    if isinstance(b, ast.Name):
                        mutated.add(b.id)
            if len(n.targets) == 1 and isinstance(n.targets[0], ast.Name):
                defs.setdefault(n.targets[0].id, []).append(n)
            elif len(n.targets) == 1 and isinstance(n.targets[0], (ast.Tuple, ast.List)) and isinstance(n.value, (ast.Tuple, ast.List)) \
                    and len(n.targets[0].elts) == len(n.value.elts) and all(isinstance(t, ast.Name) for t in n.targets[0].elts):
                # a, b = x, y : component-wise definitions
                for t_, v_ in zip(n.targets[0].elts, n.value.elts):
                    pseudo = ast.Assign(targets=[t_], value=v_)
                    ast.copy_location(pseudo, n)
                    defs.setdefault(t_.id, []).append(pseudo)
        elif isinstance(n, ast.AugAssign):
            for x in ast.walk(n.target):
                if isinstance(x, ast.Name):
                    bind(x.id, n.lineno)
                    mutated.add(x.id)
        elif isinstance(n, (ast.For, ast.AsyncFor)):
            for x in ast.walk(n.target):
                if isinstance(x, ast.Name):
                    bind(x.id, n.lineno)
        elif isinstance(n, (ast.With, ast.AsyncWith)):
            for it in n.items:
                if it.optional_vars is not None:
                    for x in ast.walk(it.optional_vars):
                        if isinstance(x, ast.Name):
                            bind(x.id, n.lineno)
        elif isinstance(n, ast.NamedExpr):
            bind(n.target.id, n.lineno)
        elif isinstance(n, (ast.Global, ast.Nonlocal)):
            for nm in n.names:
                mutated.add(nm)
        elif isinstance(n, ast.ExceptHandler) and n.name:
            bind(n.name, n.lineno)
        elif isinstance(n, ast.Call) and isinstance(n.func, ast.Attribute) and isinstance(n.func.value, ast.Name) and \
                n.func.attr in ('append', 'extend', 'insert', 'pop', 'remove', 'sort', 'reverse', 'clear', 'fill', 'resize', 'put', 'itemset', 'update'):
            mutated.add(n.func.value.id)
    ALLOC = {'zeros', 'ones', 'empty', 'eye', 'identity', 'array', 'asarray', 'copy', 'deepcopy', 'list', 'dict', 'set', 'full'}
    out = {}
    for name, ds in defs.items():
        if counts.get(name, 0) != 1 or name in mutated or name in params or name in keep:
            continue          # keep: names the caller wants to stay symbolic
        st = ds[0]
        v = st.value
        if isinstance(v, (ast.List, ast.Dict, ast.Set, ast.ListComp, ast.DictComp, ast.SetComp, ast.GeneratorExp, ast.Lambda, ast.Yield, ast.Await)):
            continue
        if isinstance(v, ast.Call):
            fn = v.func.attr if isinstance(v.func, ast.Attribute) else (v.func.id if isinstance(v.func, ast.Name) else None)
            if fn in ALLOC:
                continue
        if sum(1 for _ in ast.walk(v)) > 40:
            continue
        ok = True
        # the class of an object does not change when its attributes are stored: X.__class__ / type(X) read nothing mutable of X
        immune = set()
        for x in ast.walk(v):
            if isinstance(x, ast.Attribute) and x.attr == '__class__' and isinstance(x.value, ast.Name):
                immune.add(id(x.value))
            if isinstance(x, ast.Call) and isinstance(x.func, ast.Name) and x.func.id == 'type' and len(x.args) == 1 and isinstance(x.args[0], ast.Name):
                immune.add(id(x.args[0]))
        for x in ast.walk(v):
            if isinstance(x, ast.Name):
                if id(x) in immune and x.id in params:
                    continue
                if x.id == name:
                    ok = False
                later = [l for l in bind_lines.get(x.id, []) if l > st.lineno]
                if later or x.id in mutated:
                    ok = False
        if ok:
            out[name] = v
    # definitions may mention other pure locals: resolve transitively (bounded)
    for _ in range(3):
        for name in list(out):
            if names_in(out[name]) & set(out):
                out[name] = _subst_pure(out[name], {k: v for k, v in out.items() if k != name})
    return out


class _SubstPure(ast.NodeTransformer):
    def __init__(self, env):
        self.env = env

    def _scoped(self, n, bound):
        # names bound by a comprehension / lambda shadow the function's locals inside it
        inner = {k: v for k, v in self.env.items() if k not in bound}
        if len(inner) == len(self.env):
            return self.generic_visit(n)
        return _SubstPure(inner).generic_visit(n)

    def visit_ListComp(self, n):
        return self._scoped(n, {x.id for g in n.generators for x in ast.walk(g.target) if isinstance(x, ast.Name)})

    visit_SetComp = visit_GeneratorExp = visit_DictComp = visit_ListComp

    def visit_Lambda(self, n):
        return self._scoped(n, {a.arg for a in n.args.args + n.args.kwonlyargs + n.args.posonlyargs})

    def visit_Name(self, n):
        if isinstance(n.ctx, ast.Load) and n.id in self.env:
            import copy
            return copy.deepcopy(self.env[n.id])
        return n


def _subst_pure(t, env):
    import copy
    return _SubstPure(env).visit(copy.deepcopy(t))


class _Box:
    """Wrap an AST so that set operations compare by cond_key only."""
    __slots__ = ('ast',)

    def __init__(self, a):
        self.ast = a

    def __eq__(self, o):
        return True

    def __hash__(self):
        return 0


def _split(test, pol):
    """Decompose a condition with polarity into atomic facts that must hold."""
    if isinstance(test, ast.UnaryOp) and isinstance(test.op, ast.Not):
        yield from _split(test.operand, not pol)
        return
    if isinstance(test, ast.BoolOp):
        if isinstance(test.op, ast.And) and pol:
            for v in test.values:
                yield from _split(v, True)
            return
        if isinstance(test.op, ast.Or) and not pol:
            for v in test.values:
                yield from _split(v, False)
            return
    yield (test, pol)
    if isinstance(test, ast.BoolOp):
        # De Morgan: (A and B) false  ==  (not A or not B) true, and the other way round -- both spellings travel together
        from .boolfold import negate, _push_not
        alt = _push_not(negate(test))
        ast.copy_location(alt, test)
        ast.fix_missing_locations(alt)
        yield (alt, not pol)
    # the complementary spelling is the same fact: (a != b, p) == (a == b, not p); likewise is / is not, in / not in
    # (ordering comparisons are NOT complemented: `not a > b` differs from `a <= b` for NaN)
    if isinstance(test, ast.Compare) and len(test.ops) == 1 and type(test.ops[0]) in _COMPLEMENT:
        alt = ast.Compare(left=test.left, ops=[_COMPLEMENT[type(test.ops[0])]()], comparators=test.comparators)
        ast.copy_location(alt, test)
        yield (alt, not pol)


_COMPLEMENT = {ast.Eq: ast.NotEq, ast.NotEq: ast.Eq, ast.Is: ast.IsNot, ast.IsNot: ast.Is, ast.In: ast.NotIn, ast.NotIn: ast.In}


def fact_holds(facts, pred):
    """facts: set from must_facts; pred(test_ast, polarity)->bool"""
    for f in facts:
        if pred(f[2].ast, f[1]):
            return True
    return False


# ---------------------------------------------------------------------- guard helpers (interprocedural facts)
_guard_cache = {}


def _call_guards(cfg, call):
    """[(test AST over the caller's expressions, polarity)] established by a returning call of a guard helper"""
    try:
        from .model import program
        from .scope import FuncInfo
        prog = program()
        f = prog.function_of_node(cfg.fnode)
        if f is None:
            return []
        fi = FuncInfo.of(f)
        t = fi.resolve(call.func)
    except Exception:
        return []
    g = t.obj if getattr(t, 'kind', None) in ('func', 'method') else None
    if g is None or not hasattr(g, 'node') or g.module.short == 'stdlib/collections':
        return []
    key = (id(prog), g.key)
    if key not in _guard_cache:
        _guard_cache[key] = _guard_summary(g)
    summ = _guard_cache[key]
    if not summ:
        return []
    formals = list(g.params)
    actual = {}
    args = list(call.args)
    if any(isinstance(a, ast.Starred) for a in args) or any(k.arg is None for k in call.keywords):
        return []
    if t.kind == 'method' and formals and getattr(g, 'kind', '') not in ('static',):
        if isinstance(call.func, ast.Attribute):
            actual[formals[0]] = call.func.value
        formals = formals[1:]
    for fp, a in zip(formals, args):
        actual[fp] = a
    for k in call.keywords:
        actual[k.arg] = k.value
    out = []
    for (test, pol, names) in summ:
        if not names <= set(actual):
            continue
        out.append((_subst_pure(test, {n: actual[n] for n in names}), pol))
    return out


def _guard_summary(g):
    """body-level guards of g: [(test, polarity that holds after g returns, parameter names in the test)]"""
    out = []
    rebound = set()
    params = set(g.allparams) if hasattr(g, 'allparams') else set(g.params)
    body = [st for st in g.node.body if not (isinstance(st, ast.Expr) and isinstance(st.value, ast.Constant))]
    if len(body) > 6:
        return []
    for st in body:
        test = pol = None
        if isinstance(st, ast.If) and not st.orelse and st.body and isinstance(st.body[-1], ast.Raise):
            test, pol = st.test, False
        elif isinstance(st, ast.Assert):
            test, pol = st.test, True
        elif isinstance(st, (ast.Return, ast.Pass)):
            continue
        else:
            return []          # not a pure guard helper
        names = names_in(test)
        locs = {n for n in names if n in params}
        free_locals = {n for n in names if n not in params}
        # names that are not parameters must be globals/builtins (type, len, isinstance ...): accept only call heads
        heads = {x.func.id for x in ast.walk(test) if isinstance(x, ast.Call) and isinstance(x.func, ast.Name)}
        if not (free_locals <= heads | {'np', 'base', 'math'}):
            continue
        if locs & rebound:
            continue
        out.append((test, pol, frozenset(locs)))
    return out
