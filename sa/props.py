"""Property -> rule instances."""
import json
import os

from .model import AnalysisError
from .report import VERIF
from .callgraph import closure
from .rules import r1_resolve, r2_none, r3_ctor

_anch = None


def anchors(run, pid):
    global _anch
    if _anch is None:
        with open(os.path.join(VERIF, 'design', 'anchors.json')) as fh:
            _anch = json.load(fh)
    out = []
    for k in _anch[pid]:
        f = run.prog.functions.get(k)
        if f is None:
            run.error('anchor %s of %s not found in the current source' % (k, pid))
        else:
            out.append(f)
    return out


def scope(run, pid, extra=()):
    """Anchored functions plus callees (depth 1 quick, closure thorough)."""
    roots = anchors(run, pid) + [run.prog.func(k) for k in extra]
    return closure(roots, depth=1 if run.tier == 'quick' else None, prog=run.prog)


def c_dev(run):
    fs = run.prog.analysed_functions()
    r1_resolve.run_r1(run, fs)
    r2_none.run_r2(run, fs)
    r3_ctor.run_r3(run)
    run.explanation = 'development run of R1-R3 over the whole package'


CHECKS = {'DEV': c_dev}
