"""Property -> rule instances."""
import json
import os

from .model import AnalysisError
from .report import VERIF
from .callgraph import closure
from .rules import r1_resolve, r2_none, r3_ctor, r9_purity, r4_predicates, r5_arghandler, r6_dispatch, r7_binary, r8_accessors, r_list, r10_args, r11_symbolic

_anch = None


def anchors(run, pid):
    global _anch
    if _anch is None:
        with open(os.path.join(VERIF, 'design', 'anchors.json')) as fh:
            _anch = json.load(fh)
    out = []
    for k in _anch[pid]:
        f = run.prog.functions.get(k)
        if f is None:
            run.error('anchor %s of %s not found in the current source' % (k, pid))
        else:
            out.append(f)
    return out


def scope(run, pid, extra=()):
    """Anchored functions plus callees (depth 1 quick, closure thorough)."""
    roots = anchors(run, pid) + [run.prog.func(k) for k in extra]
    return closure(roots, depth=1 if run.tier == 'quick' else None, prog=run.prog)


def c_dev(run):
    fs = run.prog.analysed_functions()
    r1_resolve.run_r1(run, fs)
    r2_none.run_r2(run, fs)
    r3_ctor.run_r3(run)
    run.explanation = 'development run of R1-R3 over the whole package'


CHECKS = {'DEV': c_dev}


STATIC_TRUST = ['CPython ast module (parser)', 'Python scoping, MRO and operator-dispatch semantics as modelled in sa/',
                'numpy view/copy behaviour as tabulated in sa/rules/r9_purity.py']


def c17(run):
    import ast as _ast
    from .callgraph import own_walk
    prog = run.prog
    funcs = prog.analysed_functions()
    r9_purity.run_r9(run, funcs)
    run.floor('R9', 400)
    # augmented operators: every __iop__ defined in the package delegates to the binary operator
    aug = {'__iadd__': '__add__', '__isub__': '__sub__', '__imul__': '__mul__', '__itruediv__': '__truediv__',
           '__ipow__': '__pow__', '__imatmul__': '__matmul__'}
    n = 0
    for f in funcs:
        if f.name in aug and f.cls is not None:
            n += 1
            body = [s for s in f.node.body if not (isinstance(s, _ast.Expr) and isinstance(s.value, _ast.Constant))]
            ok = (len(body) == 1 and isinstance(body[0], _ast.Return) and isinstance(body[0].value, _ast.Call)
                  and isinstance(body[0].value.func, _ast.Attribute) and body[0].value.func.attr == aug[f.name]
                  and isinstance(body[0].value.func.value, _ast.Name) and body[0].value.func.value.id == f.params[0])
            if ok:
                run.holds('R9aug', f.key, 'delegation', 'augmented operator returns the result of %s: no in-place update'
                          % aug[f.name], f=f)
            else:
                run.undecided('R9aug', f.key, 'delegation', 'augmented operator is not a plain delegation to %s; '
                              'its effects are decided by R9 alone' % aug[f.name], f=f)
    run.floor('R9aug', 7)
    inh = []
    for c in prog.classes.values():
        if prog.UserList in c.mro:
            for nm in ('__iadd__', '__imul__'):
                k, mem = prog.lookup_member(c, nm)
                if k is prog.UserList or (k is not None and not hasattr(k, 'module')) or (k is not None and getattr(k, 'name', '') == 'MutableSequence'):
                    inh.append('%s.%s' % (c.name, nm))
    run.extra['inherited_inplace_list_operators'] = sorted(inh)
    run.explanation = ('Whole-package effect analysis (rule R9): a may-alias forward dataflow over every function and '
                       'method of spatialmath (except animate.py/timing.py) with function summaries computed to a '
                       'fixpoint decides that no subscript/attribute store, augmented assignment, mutating method '
                       'call, numpy in-place call or out= argument can reach storage that may alias a parameter, the '
                       'receiver of a non-mutating method or a module-level object; random/time sources occur only in '
                       'the documented random constructors. This is the structural content of C17 (no argument '
                       'mutation, no hidden state); it does not execute anything, so "equal outputs on repeated '
                       'calls" is decided only as absence of hidden state.')
    run.assume('numpy functions not listed as allocating fresh storage may return a view/alias of their array arguments',
               'callbacks passed to binop/_op2/unop are the lambdas visible at the call sites (analysed)',
               'no ctypes/buffer-protocol tricks; unknown (unresolved) callees do not mutate their arguments')
    run.trust(*STATIC_TRUST)


CHECKS['C17'] = c17


def c07(run):
    prog = run.prog
    r4_predicates.run_r4(run)
    r5_arghandler.run_r5(run)
    r3_ctor.run_r3(run, classes=['SO2', 'SE2', 'SO3', 'SE3', 'Quaternion', 'UnitQuaternion', 'Twist2', 'Twist3',
                                 'Plucker', 'UnitDualQuaternion', 'DualQuaternion'])
    fs = scope(run, 'C07')
    r2_none.run_r2(run, fs)
    r1_resolve.run_r1(run, fs)
    run.floor('R4', 40)
    run.floor('R5', 15)
    run.floor('R3', 11)
    run.explanation = ('Rules R4 (predicate atoms: orthogonality residual, sign of det(R) itself, last row, unit/zero/'
                       'skew definitions, class isvalid delegation), R5 (every store into data in arghandler passes '
                       '_import and a None test, or a class test; _import returns the value only under isvalid; '
                       'constructors forward check), R3 (every normal constructor exit has assigned the value state) '
                       'and R2/R1 over the anchored functions. Together: with check=True there is no path from a '
                       'constructor argument to data that bypasses a predicate containing the orthogonality, '
                       'determinant-sign and last-row atoms, and no path stores None or leaves an empty object. The '
                       'numeric width of the tolerance band is not decided.')
    run.trust(*STATIC_TRUST)
    run.assume('validity of values produced by the library itself (check=False sites) is the subject of C01, not C07')


CHECKS['C07'] = c07


def c_dev6(run):
    from .rules import r6_dispatch
    r6_dispatch.run_r6(run)
    run.explanation = 'dev R6'


CHECKS['DEV6'] = c_dev6


def c_dev7(run):
    from .rules import r7_binary
    r7_binary.run_r7(run)
    run.explanation = 'dev R7'


CHECKS['DEV7'] = c_dev7


def c08(run):
    prog = run.prog
    r6_dispatch.run_r6(run)
    run.exhaustive = True
    r7_binary.run_r7(run, helpers=False, dunders=True)
    dund = [f for f in prog.analysed_functions() if f.cls is not None and f.name in r7_binary.BIN_DUNDERS]
    fs = closure(anchors(run, 'C08') + dund, depth=1 if run.tier == 'quick' else None, prog=prog)
    r2_none.run_r2(run, fs)
    r1_resolve.run_r1(run, fs)
    run.floor('R6', 2000)
    run.floor('R7', 60)
    run.explanation = ('Rule R6 enumerates the complete operator table -- 10 operators x every ordered pair over the 16 '
                       'public classes plus int, float, list, tuple, ndarray with at least one library operand -- '
                       'resolves the method Python calls for each cell (forward dunder through the MRO including the '
                       'parsed stdlib UserList, reflected fallback, subclass priority) and abstractly interprets the '
                       'method bodies with the operand classes known exactly and lengths/shapes/values unknown. Each '
                       'cell is compared with the documented table (DESIGN.md appendix B): a must-raise cell is a '
                       'violation when a statically definite path returns a value, None, an identity built from a None '
                       'result, or an object holding foreign elements, or when the pairing was rejected by type '
                       'dispatch in the confirmed table and no longer is; a documented cell is a violation when it '
                       'definitely returns the wrong class/None or always raises. R2/R1/R7 cover every binary dunder and '
                       'helper (no silent None, no unresolved name, result depends on both operands). exhaustive=true '
                       'refers to the dispatch abstraction: the finite cell space is enumerated completely; cells whose '
                       'outcome depends on numeric shape tests are reported as undecided, not as discharged.')
    run.assume('lengths, shapes and numeric values of operands are unknown (both branches explored)',
               'ndarray as the LEFT operand is excluded: numpy coercion of sequence-like objects decides those cells',
               'helper inlining depth 4; assert-based rejections count as raises (disabled under python -O)',
               'a comprehension over an operand is assumed to iterate at least once')
    run.trust(*STATIC_TRUST, 'collections.UserList source as shipped with the interpreter running the analyser')


CHECKS['C08'] = c08


def c_dev8(run):
    from .rules import r8_accessors
    r8_accessors.run_r8(run)
    run.explanation = 'dev R8'


CHECKS['DEV8'] = c_dev8


def c_devl(run):
    from .rules import r_list
    r_list.run_list_rules(run)
    run.explanation = 'dev list'


CHECKS['DEVL'] = c_devl


def c09(run):
    prog = run.prog
    r7_binary.run_r7(run, helpers=True, dunders=False)
    r8_accessors.run_r8(run)
    fs = scope(run, 'C09')
    r2_none.run_r2(run, fs)
    r1_resolve.run_r1(run, fs)
    run.floor('R7', 14)
    run.floor('R8', 60)
    run.floor('R8h', 20)
    run.explanation = ('R7: the two broadcasting helpers (SMUserList.binop, SMPose._op2) have, on every return path, the '
                       'tabulated four-case structure -- (1,1), (1,M), (M,1), (M,M) forms with the right guards '
                       '(len(left)==1 / len(right)==1 / len(left)==len(right) facts that hold on every path reaching the '
                       'return), operand order op(left, right), iteration over the right operand, and ValueError when '
                       'both lengths exceed 1 and differ. R8h: every vectorised operator of the list-capable classes '
                       'reaches one of the helpers in the call graph. R8: in every per-value accessor a single-or-list '
                       'value (self.A, self._A, self.S, helper results, the result of ==) is used as an array only under '
                       'len(self)==1 and iterated only under len(self)!=1; elements of self.data are treated as ndarrays '
                       'and elements of iter(self) as objects; the single-value and per-element branches call the same '
                       'kernel with the same options. Element values (numerics) are not decided.')
    run.trust(*STATIC_TRUST)


def c10(run):
    prog = run.prog
    r_list.run_list_rules(run)
    r5_arghandler.check_arghandler(run, prog.func('smuserlist:SMUserList.arghandler'))
    fs = scope(run, 'C10')
    r2_none.run_r2(run, fs)
    r1_resolve.run_r1(run, fs)
    r9 = None
    run.floor('RL', 18)
    run.explanation = ('List equivalence by delegation: (a) __getitem__ hands integer indices to list indexing of self.data and '
                       'obtains slice elements from list slicing or slice.indices(len(self)), wrapping in the same class; (b) '
                       'append/insert/__setitem__/extend have a class-EQUALITY guard (isinstance is rejected because concrete '
                       'classes have concrete subclasses) and a single-value guard whose false edges raise and which hold on '
                       'every path to the list mutation, so the object is unchanged on error; extend passes the element list; '
                       '(c) pop and the per-class __getitem__ overrides return the same class; (d) no list primitive '
                       '(__delitem__, __len__, __iter__, __contains__, reverse, clear, __reversed__) is overridden below '
                       'UserList; (e) Empty sets data=[] and Alloc builds n separately constructed identities; (f) the '
                       'list-of-objects constructor path checks the class of every element and tolerates the empty list. '
                       'With CPython list/UserList trusted, (a)-(f) imply equality with a Python list for every operation '
                       'history; histories are therefore not enumerated.')
    run.trust(*STATIC_TRUST, 'CPython list and collections.UserList semantics')


CHECKS['C09'] = c09
CHECKS['C10'] = c10


def c_dev10(run):
    from .rules import r10_args
    fs = run.prog.analysed_functions()
    r10_args.run_r10(run, fs)
    for k in r10_args.EXTRACTORS:
        r10_args.check_extraction_units(run, run.prog.func(k))
    r10_args.check_order_tables(run)
    run.explanation = 'dev R10'


CHECKS['DEV10'] = c_dev10


def base_exports(run):
    prog = run.prog
    b = prog.modules['spatialmath.base']
    out = []
    for nm in (b.all or []):
        t = prog.resolve_name(b, nm)
        if t.kind == 'func' and t.obj is not None:
            out.append(t.obj)
    if len(out) < 100:
        run.error('only %d functions exported by spatialmath.base.__all__ resolved (expected > 100)' % len(out))
    return out


def c15(run):
    prog = run.prog
    fs = {f.key: f for f in base_exports(run)}
    for f in anchors(run, 'C15'):
        fs[f.key] = f
    # every public method of the classes that takes a vector/angle/unit/order argument
    for f in prog.analysed_functions():
        if f.cls is not None and f.parent is None and not f.module.short.startswith('base/'):
            if any(p in ('unit', 'units', 'order', 'flip') for p in f.allparams) or 'array_like' in f.doc:
                fs[f.key] = f
    fl = list(fs.values())
    r10_args.run_r10(run, fl)
    for k in r10_args.EXTRACTORS:
        r10_args.check_extraction_units(run, prog.func(k))
    r10_args.check_order_tables(run)
    r3_ctor.run_r3(run)
    r2_none.run_r2(run, closure(fl, depth=0 if run.tier == 'quick' else 1, prog=prog))
    run.floor('R10a', 60)
    run.floor('R10d', 40)
    run.floor('R10u', 25)
    run.explanation = ('R10a/b: for every function exported by spatialmath.base.__all__ (read from the source) and every '
                       'class method documenting an array_like argument, each use of the raw argument is a normaliser '
                       '(getvector/getmatrix, which map list, tuple, 1-D, row and column forms to the same array -- the '
                       'trusted root), a form test, a None test, a forward to an array_like parameter, or is dominated by '
                       'an ndarray/ismatrix test; the documented length is enforced (dim= or a len test whose else '
                       'raises). R10s: documented scalars are not iterated before getvector. R10d/u/x/o: every option '
                       'parameter is read; angle values carry a unit typestate raw -> converted: they are forwarded with '
                       'unit= only while raw and reach trig/exponential kernels only when converted exactly once; '
                       'extraction functions scale by 180/pi exactly under unit==deg; order chains end in raise and '
                       'rpy2r/tr2rpy accept the same names. R3/R2: wrong arguments raise rather than yield an empty '
                       'object or None. Bitwise identity of results follows from normaliser dominance and is not observed.')
    run.trust(*STATIC_TRUST, 'getvector/getmatrix/getunit are the trusted normaliser roots (their own bodies are covered by C16/C17 rules only)')


CHECKS['C15'] = c15


def c_dev11(run):
    from .rules import r11_symbolic
    r11_symbolic.run_r11(run)
    r11_symbolic.check_getvector_dtype(run)
    r11_symbolic.check_allocations(run)
    run.explanation = 'dev R11'


CHECKS['DEV11'] = c_dev11


def c16(run):
    prog = run.prog
    r11_symbolic.run_r11(run)
    r11_symbolic.check_getvector_dtype(run)
    r11_symbolic.check_allocations(run)
    ms = r11_symbolic.marked(prog)
    r1_resolve.run_r1(run, closure(ms, depth=1 if run.tier == 'quick' else None, prog=prog))
    run.floor('R11', 40)
    run.floor('R11d', 2)
    run.floor('R11a', 5)
    run.explanation = ('R11: for each of the functions/methods carrying ":SymPy: supported" (read from the docstrings on '
                       'every run), arguments are tainted with their documented kind (scalar / array) and followed through '
                       'the base functions they call (summaries to a fixpoint); a violation is a tainted value reaching a '
                       'numeric-only primitive -- math.*, float(), np.linalg.*, scipy.linalg.*, np.isscalar on a symbolic '
                       'scalar, or an ordering comparison used as a truth value -- without a dominating symbolic guard '
                       '(issymbol / sympy.Expr / dtype object test); sinks reached only under a check parameter are '
                       'conditional on it. R11c: marked class methods construct their (possibly symbolic) result with '
                       'check=False when the class validity predicate is numeric. R11a: arrays that receive '
                       'argument-derived values are allocated with the argument dtype (or only in the numeric branch). '
                       'R11d: the vector normaliser selects its conversion dtype under a symbol test in each container '
                       'branch. Value agreement after substitution needs execution and is not decided.')
    run.trust(*STATIC_TRUST)


CHECKS['C16'] = c16


def c_dev16(run):
    from .rules import r16_tables
    r16_tables.tables_c13(run)
    r16_tables.tables_c12(run)
    r16_tables.check_routes(run, r16_tables.ROUTES_C12)
    r16_tables.tables_rot(run)
    r16_tables.rotation_words(run)
    r16_tables.tables_frames(run)
    r16_tables.tables_c02(run)
    from .rules import r15_closed
    r15_closed.check_unchecked_sites(run)
    r15_closed.check_unitquaternion_ctor(run)
    r16_tables.tables_c19(run)
    r16_tables.tables_c20(run)
    r16_tables.tables_c18(run)
    r16_tables.tables_c05(run)
    r16_tables.tables_c14(run)
    r16_tables.tables_c06(run)
    r16_tables.tables_c04(run)
    run.explanation = 'dev R16'


CHECKS['DEV16'] = c_dev16


def c_dev14(run):
    from .rules import r14_interp
    r14_interp.run_r14(run)
    run.explanation = 'dev R14'


CHECKS['DEV14'] = c_dev14
