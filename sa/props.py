"""Property -> rule instances."""
import json
import os

from .model import AnalysisError
from .report import VERIF
from .callgraph import closure
from .rules import r24_views, r25_log2, r1_resolve, r2_none, r3_ctor, r9_purity, r4_predicates, r5_arghandler, r6_dispatch, r7_binary, r8_accessors, r_list, r10_args, r11_symbolic, r16_tables, r15_closed, r14_interp, r18_shared, r19_angles, r20_shapes, r21_explog, r22_dualquat, r23_lines

_anch = None


def anchors(run, pid):
    global _anch
    if _anch is None:
        with open(os.path.join(VERIF, 'design', 'anchors.json')) as fh:
            _anch = json.load(fh)
    out = []
    for k in _anch[pid]:
        f = run.prog.functions.get(k)
        if f is None:
            run.error('anchor %s of %s not found in the current source' % (k, pid))
        else:
            out.append(f)
    return out


def scope(run, pid, extra=()):
    """Anchored functions plus callees (depth 1 quick, closure thorough)."""
    roots = anchors(run, pid) + [run.prog.func(k) for k in extra]
    return closure(roots, depth=1 if run.tier == 'quick' else None, prog=run.prog)


def c_dev10n(run):
    r10_args.check_none_default_tests(run, run.prog.analysed_functions())
    r10_args.check_none_belief(run, [f for f in run.prog.analysed_functions() if f.module.short not in ('base/animate', 'timing', 'stdlib/collections', 'base/graphics')])
    r20_shapes.check_inverted_guards(run, run.prog.analysed_functions())
    r20_shapes.check_slot_completeness(run, run.prog.analysed_functions())
    for f in run.prog.analysed_functions():
        if f.module.short not in ('base/animate', 'timing', 'stdlib/collections', 'base/graphics'):
            r7_binary.check_duplicates(run, f)
    for f in run.prog.analysed_functions():
        if f.module.short not in ('base/animate', 'timing', 'stdlib/collections', 'base/graphics'):
            r10_args.check_option_used(run, f)
            r10_args.check_sibling_options(run, f)
        r24_views.check_view_overwrite(run, f)
    run.explanation = 'development run of R10n over the whole package'


def c_dev(run):
    fs = run.prog.analysed_functions()
    r1_resolve.run_r1(run, fs)
    r2_none.run_r2(run, fs)
    r3_ctor.run_r3(run)
    run.explanation = 'development run of R1-R3 over the whole package'


CHECKS = {'DEV': c_dev, 'DEV10N': c_dev10n}


STATIC_TRUST = ['CPython ast module (parser)', 'Python scoping, MRO and operator-dispatch semantics as modelled in sa/',
                'numpy view/copy behaviour as tabulated in sa/rules/r9_purity.py']


def c17(run):
    import ast as _ast
    from .callgraph import own_walk
    prog = run.prog
    funcs = prog.analysed_functions()
    r9_purity.run_r9(run, funcs)
    run.floor('R9', 400)
    r5_arghandler.check_container_freshness(run)
    # augmented operators: every __iop__ defined in the package delegates to the binary operator
    aug = {'__iadd__': '__add__', '__isub__': '__sub__', '__imul__': '__mul__', '__itruediv__': '__truediv__',
           '__ipow__': '__pow__', '__imatmul__': '__matmul__'}
    n = 0
    for f in funcs:
        if f.name in aug and f.cls is not None:
            n += 1
            body = [s for s in f.node.body if not (isinstance(s, _ast.Expr) and isinstance(s.value, _ast.Constant))]
            ok = (len(body) == 1 and isinstance(body[0], _ast.Return) and isinstance(body[0].value, _ast.Call)
                  and isinstance(body[0].value.func, _ast.Attribute) and body[0].value.func.attr == aug[f.name]
                  and isinstance(body[0].value.func.value, _ast.Name) and body[0].value.func.value.id == f.params[0])
            if ok:
                run.holds('R9aug', f.key, 'delegation', 'augmented operator returns the result of %s: no in-place update'
                          % aug[f.name], f=f)
            else:
                run.undecided('R9aug', f.key, 'delegation', 'augmented operator is not a plain delegation to %s; '
                              'its effects are decided by R9 alone' % aug[f.name], f=f)
    run.floor('R9aug', 7)
    inh = []
    for c in prog.classes.values():
        if prog.UserList in c.mro:
            for nm in ('__iadd__', '__imul__'):
                k, mem = prog.lookup_member(c, nm)
                if k is prog.UserList or (k is not None and not hasattr(k, 'module')) or (k is not None and getattr(k, 'name', '') == 'MutableSequence'):
                    inh.append('%s.%s' % (c.name, nm))
    run.extra['inherited_inplace_list_operators'] = sorted(inh)
    run.explanation = ('Whole-package effect analysis (rule R9): a may-alias forward dataflow over every function and '
                       'method of spatialmath (except animate.py/timing.py) with function summaries computed to a '
                       'fixpoint decides that no subscript/attribute store, augmented assignment, mutating method '
                       'call, numpy in-place call or out= argument can reach storage that may alias a parameter, the '
                       'receiver of a non-mutating method or a module-level object; random/time sources occur only in '
                       'the documented random constructors. This is the structural content of C17 (no argument '
                       'mutation, no hidden state); it does not execute anything, so "equal outputs on repeated '
                       'calls" is decided only as absence of hidden state.')
    run.assume('numpy functions not listed as allocating fresh storage may return a view/alias of their array arguments',
               'callbacks passed to binop/_op2/unop are the lambdas visible at the call sites (analysed)',
               'no ctypes/buffer-protocol tricks; unknown (unresolved) callees do not mutate their arguments')
    run.trust(*STATIC_TRUST)


CHECKS['C17'] = c17


def c07(run):
    prog = run.prog
    r4_predicates.run_r4(run)
    r5_arghandler.run_r5(run)
    r3_ctor.run_r3(run, classes=['SO2', 'SE2', 'SO3', 'SE3', 'Quaternion', 'UnitQuaternion', 'Twist2', 'Twist3',
                                 'Plucker', 'UnitDualQuaternion', 'DualQuaternion'])
    fs = scope(run, 'C07')
    r2_none.run_r2(run, fs)
    r1_resolve.run_r1(run, fs)
    # an accepted `check` (or tol) option is read: a constructor / conversion that ignores it skips or forces the validation
    for f_ in prog.analysed_functions():
        if f_.module.short not in ('base/animate', 'timing', 'stdlib/collections', 'base/graphics') and any(p_ in ('check', 'tol') for p_ in f_.allparams):
            r10_args.check_option_used(run, f_)
    # caller data never reaches a construction that skips the check: a transporter (r2t, rt2tr, trinv ...) applied to a raw
    # parameter is a member only if the parameter is, so it needs a dominating membership test with the check enabled
    r15_closed.check_unchecked_sites(run, raw_only=True)
    # a constructor argument that may be left out (None) is used as a value only where it was found to be given
    r10_args.check_none_belief(run, [f for f in prog.analysed_functions() if f.name == '__init__' and f.module.short not in ('stdlib/collections',)])
    # an element of another class never enters through the list interface: class equality guards of the mutators (RL b)
    r_list.run_mutator_guards(run)
    # dual-mode transl / transl2 behind the validating import: reached only with a vector argument
    if r20_shapes.check_dual_mode_calls(run, [f for f in prog.analysed_functions() if f.cls is not None]) < 2:
        run.error('R20: fewer than 2 one-argument transl / transl2 calls in class methods (anchor of the dual-mode rule not found in the current source)')
    run.floor('R4', 40)
    run.floor('R5', 15)
    run.floor('R3', 11)
    run.explanation = ('Rules R4 (predicate atoms: orthogonality residual, sign of det(R) itself, last row, unit/zero/'
                       'skew definitions, class isvalid delegation), R5 (every store into data in arghandler passes '
                       '_import and a None test, or a class test; _import returns the value only under isvalid; '
                       'constructors forward check), R3 (every normal constructor exit has assigned the value state) '
                       'R20 (a one-argument call of the dual-mode transl/transl2 in a constructor is reached only where the argument '
                       'is established to be a vector, so a matrix rejected by the import cannot be turned into a stored vector) '
                       'and R2/R1 over the anchored functions. Together: with check=True there is no path from a '
                       'constructor argument to data that bypasses a predicate containing the orthogonality, '
                       'determinant-sign and last-row atoms, and no path stores None or leaves an empty object. The '
                       'numeric width of the tolerance band is not decided.')
    run.trust(*STATIC_TRUST)
    run.assume('validity of values produced by the library itself (check=False sites) is the subject of C01, not C07')


CHECKS['C07'] = c07


def c_dev6(run):
    from .rules import r6_dispatch
    r6_dispatch.run_r6(run)
    run.explanation = 'dev R6'


CHECKS['DEV6'] = c_dev6


def c_dev7(run):
    from .rules import r7_binary
    r7_binary.run_r7(run)
    run.explanation = 'dev R7'


CHECKS['DEV7'] = c_dev7


def c08(run):
    prog = run.prog
    r6_dispatch.run_r6(run)
    r6_dispatch.check_array_branch_dimension(run)
    r6_dispatch.check_reflected_guards(run)
    r6_dispatch.check_guard_direction(run)
    run.exhaustive = True
    r7_binary.run_r7(run, helpers=False, dunders=True)
    dund = [f for f in prog.analysed_functions() if f.cls is not None and f.name in r7_binary.BIN_DUNDERS]
    fs = closure(anchors(run, 'C08') + dund, depth=1 if run.tier == 'quick' else None, prog=prog)
    r2_none.run_r2(run, fs)
    r1_resolve.run_r1(run, fs)
    run.floor('R6', 2000)
    run.floor('R7', 60)
    run.explanation = ('Rule R6 enumerates the complete operator table -- 10 operators x every ordered pair over the 16 '
                       'public classes plus int, float, list, tuple, ndarray with at least one library operand -- '
                       'resolves the method Python calls for each cell (forward dunder through the MRO including the '
                       'parsed stdlib UserList, reflected fallback, subclass priority) and abstractly interprets the '
                       'method bodies with the operand classes known exactly and lengths/shapes/values unknown. Each '
                       'cell is compared with the documented table (DESIGN.md appendix B): a must-raise cell is a '
                       'violation when a statically definite path returns a value, None, an identity built from a None '
                       'result, or an object holding foreign elements, or when the pairing was rejected by type '
                       'dispatch in the confirmed table and no longer is; a documented cell is a violation when it '
                       'definitely returns the wrong class/None or always raises. R2/R1/R7 cover every binary dunder and '
                       'helper (no silent None, no unresolved name, result depends on both operands). exhaustive=true '
                       'refers to the dispatch abstraction: the finite cell space is enumerated completely; cells whose '
                       'outcome depends on numeric shape tests are reported as undecided, not as discharged.')
    run.assume('lengths, shapes and numeric values of operands are unknown (both branches explored)',
               'ndarray as the LEFT operand is excluded: numpy coercion of sequence-like objects decides those cells',
               'helper inlining depth 4; assert-based rejections count as raises (disabled under python -O)',
               'a comprehension over an operand is assumed to iterate at least once')
    run.trust(*STATIC_TRUST, 'collections.UserList source as shipped with the interpreter running the analyser')


CHECKS['C08'] = c08


def c_dev8(run):
    from .rules import r8_accessors
    r8_accessors.run_r8(run)
    run.explanation = 'dev R8'


CHECKS['DEV8'] = c_dev8


def c_devl(run):
    from .rules import r_list
    r_list.run_list_rules(run)
    run.explanation = 'dev list'


CHECKS['DEVL'] = c_devl


def c09(run):
    prog = run.prog
    r7_binary.run_r7(run, helpers=True, dunders=False)
    r8_accessors.run_r8(run)
    r8_accessors.check_accessor_slots(run)
    r8_accessors.check_operator_fastpaths(run)
    r20_shapes.check_layout_by_one_dimension(run, [f for f in prog.analysed_functions() if not f.module.short.startswith('stdlib/')])
    r8_accessors.check_list_truth(run, [f for f in prog.analysed_functions() if not f.module.short.startswith(('base/', 'stdlib/')) and f.module.short != 'timing'])
    r8_accessors.check_element_slices(run, [k for k in r8_accessors.ACCESSORS if k.startswith('twist:SMTwist.')])
    if r8_accessors.check_zip_lengths(run, [f for f in prog.analysed_functions() if not f.module.short.startswith(('base/', 'stdlib/'))
                                            and f.module.short != 'timing']) < 6:
        run.error('R8z: fewer than 6 two-operand zip pairings found (anchor of the length rule not found in the current source)')
    # the multi-valued inverse is the single-valued inverse of every element (per-element route, or the structured inverse written
    # on the stacked array)
    r16_tables.check_routes(run, [r for r in r16_tables.ROUTES_C02 if r[0] in ('pose3d:SE3.inv', 'pose2d:SE2.inv', 'pose3d:SO3.inv', 'pose2d:SO2.inv')], rule='R8')
    fs = scope(run, 'C09')
    r2_none.run_r2(run, fs)
    r1_resolve.run_r1(run, fs)
    # broadcasting over a vector of motion parameters: the unit conversion applied to a scalar theta is applied to every
    # element of a vector theta as well (unit typestate of the angle on every path to the exponential)
    nu = 0
    for k in ('twist:Twist3.exp', 'twist:Twist2.exp'):
        r10_args.check_unit_typestate(run, prog.func(k))
        nu += 1
    run.floor('R7', 14)
    run.floor('R8', 60)
    run.floor('R8h', 20)
    run.explanation = ('R7: the two broadcasting helpers (SMUserList.binop, SMPose._op2) have, on every return path, the '
                       'tabulated four-case structure -- (1,1), (1,M), (M,1), (M,M) forms with the right guards '
                       '(len(left)==1 / len(right)==1 / len(left)==len(right) facts that hold on every path reaching the '
                       'return), operand order op(left, right), iteration over the right operand, and ValueError when '
                       'both lengths exceed 1 and differ. R8h: every vectorised operator of the list-capable classes '
                       'reaches one of the helpers in the call graph. R8: in every per-value accessor a single-or-list '
                       'value (self.A, self._A, self.S, helper results, the result of ==) is used as an array only under '
                       'len(self)==1 and iterated only under len(self)!=1; elements of self.data are treated as ndarrays '
                       'and elements of iter(self) as objects; the single-value and per-element branches call the same '
                       'kernel with the same options. R10u: in Twist2/Twist3.exp the angle reaches the exponential converted by getunit '
                       'on every path, for a scalar and for a vector of angles alike. Element values (numerics) are not decided.')
    run.trust(*STATIC_TRUST)


def c10(run):
    prog = run.prog
    r_list.run_list_rules(run)
    r5_arghandler.check_arghandler(run, prog.func('smuserlist:SMUserList.arghandler'))
    r5_arghandler.check_container_freshness(run)
    fs = scope(run, 'C10')
    r2_none.run_r2(run, fs)
    r1_resolve.run_r1(run, fs)
    r9 = None
    run.floor('RL', 18)
    run.explanation = ('List equivalence by delegation: (a) __getitem__ hands integer indices to list indexing of self.data and '
                       'obtains slice elements from list slicing or slice.indices(len(self)), wrapping in the same class; (b) '
                       'append/insert/__setitem__/extend have a class-EQUALITY guard (isinstance is rejected because concrete '
                       'classes have concrete subclasses) and a single-value guard whose false edges raise and which hold on '
                       'every path to the list mutation, so the object is unchanged on error; extend passes the element list; '
                       '(c) pop and the per-class __getitem__ overrides return the same class; (d) no list primitive '
                       '(__delitem__, __len__, __iter__, __contains__, reverse, clear, __reversed__) is overridden below '
                       'UserList; (e) Empty sets data=[] and Alloc builds n separately constructed identities; (f) the '
                       'list-of-objects constructor path checks the class of every element and tolerates the empty list. '
                       'With CPython list/UserList trusted, (a)-(f) imply equality with a Python list for every operation '
                       'history; histories are therefore not enumerated.')
    run.trust(*STATIC_TRUST, 'CPython list and collections.UserList semantics')


CHECKS['C09'] = c09
CHECKS['C10'] = c10


def c_dev10(run):
    from .rules import r10_args
    fs = run.prog.analysed_functions()
    r10_args.run_r10(run, fs)
    for k in r10_args.EXTRACTORS:
        r10_args.check_extraction_units(run, run.prog.func(k))
    r10_args.check_order_tables(run)
    run.explanation = 'dev R10'


CHECKS['DEV10'] = c_dev10


def c_dev10r(run):
    r10_args.check_recursion_options(run, run.prog.analysed_functions())
    run.explanation = 'dev R10r'


CHECKS['DEV10R'] = c_dev10r


def c_dev20(run):
    r20_shapes.check_shapes(run, run.prog.analysed_functions())
    r20_shapes.check_predicate_results(run, run.prog.analysed_functions())
    run.explanation = 'dev R20'


CHECKS['DEV20'] = c_dev20


def c_dev1a(run):
    r1_resolve.check_call_signatures(run, run.prog.analysed_functions())
    run.explanation = 'dev R1a'


CHECKS['DEV1A'] = c_dev1a


def base_exports(run):
    prog = run.prog
    b = prog.modules['spatialmath.base']
    out = []
    for nm in (b.all or []):
        t = prog.resolve_name(b, nm)
        if t.kind == 'func' and t.obj is not None:
            out.append(t.obj)
    if len(out) < 100:
        run.error('only %d functions exported by spatialmath.base.__all__ resolved (expected > 100)' % len(out))
    return out


def c15(run):
    prog = run.prog
    fs = {f.key: f for f in base_exports(run)}
    for f in anchors(run, 'C15'):
        fs[f.key] = f
    # every public method of the classes that takes a vector/angle/unit/order argument
    for f in prog.analysed_functions():
        if f.cls is not None and f.parent is None and not f.module.short.startswith('base/'):
            if any(p in ('unit', 'units', 'order', 'flip') for p in f.allparams) or 'array_like' in f.doc:
                fs[f.key] = f
    fl = list(fs.values())
    r10_args.run_r10(run, fl)
    for k in r10_args.EXTRACTORS:
        r10_args.check_extraction_units(run, prog.func(k))
    r10_args.check_order_tables(run)
    r10_args.check_recursion_options(run, prog.analysed_functions())
    r10_args.check_broadcast_stores(run, prog.analysed_functions())
    r10_args.check_none_default_tests(run, prog.analysed_functions())
    r10_args.check_none_belief(run, [f for f in prog.analysed_functions() if f.module.short not in ('base/animate', 'timing', 'stdlib/collections', 'base/graphics')])
    r10_args.check_getvector_contract(run)
    r10_args.check_getunit_contract(run)
    r10_args.check_unit_only_converts(run, [f for f in prog.analysed_functions() if f.module.short not in ('base/animate', 'timing', 'stdlib/collections', 'base/graphics')])
    r10_args.check_scalartypes(run)
    r4_predicates.check_isvector(run)
    # the arms of a form split (one vector / a list of vectors, one value / many) forward the same options to the same kernel
    for f in prog.analysed_functions():
        if f.module.short not in ('base/animate', 'timing', 'stdlib/collections', 'base/graphics'):
            r10_args.check_sibling_options(run, f)
    run.floor('R10c', 12)
    # accessors with a unit / order option: the single-value branch and the per-element branch call the same kernel with the same
    # options (a multi-valued object answers in the unit that was asked for)
    for k in r8_accessors.ACCESSORS:
        g = prog.functions.get(k)
        if g is not None and any(p_ in ('unit', 'units', 'order', 'flip') for p_ in g.allparams):
            r8_accessors.check_accessor(run, g)
    r21_explog.check_ctor_forms(run)
    r21_explog.check_exp_dispatch(run)
    run.floor('R10l', 2)
    r3_ctor.run_r3(run)
    r2_none.run_r2(run, closure(fl, depth=0 if run.tier == 'quick' else 1, prog=prog))
    run.floor('R10a', 60)
    run.floor('R10d', 40)
    run.floor('R10u', 25)
    run.explanation = ('R10a/b: for every function exported by spatialmath.base.__all__ (read from the source) and every '
                       'class method documenting an array_like argument, each use of the raw argument is a normaliser '
                       '(getvector/getmatrix, which map list, tuple, 1-D, row and column forms to the same array -- the '
                       'trusted root), a form test, a None test, a forward to an array_like parameter, or is dominated by '
                       'an ndarray/ismatrix test; the documented length is enforced (dim= or a len test whose else '
                       'raises). R10s: documented scalars are not iterated before getvector. R10d/u/x/o: every option '
                       'parameter is read; angle values carry a unit typestate raw -> converted: they are forwarded with '
                       'unit= only while raw and reach trig/exponential kernels only when converted exactly once; '
                       'extraction functions scale by 180/pi exactly under unit==deg; order chains end in raise and '
                       'rpy2r/tr2rpy accept the same names. R3/R2: wrong arguments raise rather than yield an empty '
                       'object or None. Bitwise identity of results follows from normaliser dominance and is not observed.')
    run.trust(*STATIC_TRUST, 'getmatrix/isscalar/ismatrix are trusted normaliser roots (getvector, getunit and isvector have their own contract rules R10g / R4)')


CHECKS['C15'] = c15


def c_dev11(run):
    from .rules import r11_symbolic
    r11_symbolic.run_r11(run)
    r11_symbolic.check_getvector_dtype(run)
    r11_symbolic.check_allocations(run)
    run.explanation = 'dev R11'


CHECKS['DEV11'] = c_dev11


def c16(run):
    prog = run.prog
    r11_symbolic.run_r11(run)
    r11_symbolic.check_getvector_dtype(run)
    r11_symbolic.check_allocations(run)
    r11_symbolic.check_assumption_free(run)
    r4_predicates.check_isvector(run)              # a symbolic (object dtype) array is a vector like any other: no element-type test
    r10_args.check_getvector_contract(run)
    if r11_symbolic.check_vectorize_kernels(run) < 1:
        run.error('R11v: no np.vectorize kernel found (anchor of SMPose.simplify not found in the current source)')
    ms = r11_symbolic.marked(prog)
    r18_shared.check_shared_structure(run)
    r16_tables.check_det(run)
    r16_tables.check_routes(run, [('super_pose:SMPose.simplify', 'every element simplified whole', ['self.__class__([vectorize(simplify)(x) for x in self.data], check=False)', 'self.__class__([vf(x) for x in self.data], check=False)'], 'return')], rule='R18')
    run.floor('R18', 30)
    r1_resolve.run_r1(run, closure(ms, depth=1 if run.tier == 'quick' else None, prog=prog))
    run.floor('R11', 40)
    run.floor('R11d', 2)
    run.floor('R11a', 5)
    run.explanation = ('R11: for each of the functions/methods carrying ":SymPy: supported" (read from the docstrings on '
                       'every run), arguments are tainted with their documented kind (scalar / array) and followed through '
                       'the base functions they call (summaries to a fixpoint); a violation is a tainted value reaching a '
                       'numeric-only primitive -- math.*, float(), np.linalg.*, scipy.linalg.*, np.isscalar on a symbolic '
                       'scalar, or an ordering comparison used as a truth value -- without a dominating symbolic guard '
                       '(issymbol / sympy.Expr / dtype object test); sinks reached only under a check parameter are '
                       'conditional on it. R11c: marked class methods construct their (possibly symbolic) result with '
                       'check=False when the class validity predicate is numeric. R11a: arrays that receive '
                       'argument-derived values are allocated with the argument dtype (or only in the numeric branch). '
                       'R11d: the vector normaliser selects its conversion dtype under a symbol test in each container '
                       'branch. R18: methods shared by SO(n) and SE(n) receivers (simplify among them) treat the element matrices uniformly -- no '
                       'size-relative slice cuts the last row/column off without an isSE test. Value agreement after substitution needs execution and is not decided.')
    run.trust(*STATIC_TRUST)


CHECKS['C16'] = c16


def c_dev16(run):
    from .rules import r16_tables
    r16_tables.tables_c13(run)
    r16_tables.tables_c12(run)
    r16_tables.check_routes(run, r16_tables.ROUTES_C12)
    r16_tables.tables_rot(run)
    r16_tables.rotation_words(run)
    r16_tables.tables_frames(run)
    r16_tables.tables_c02(run)
    from .rules import r15_closed
    r15_closed.check_unchecked_sites(run)
    r15_closed.check_unitquaternion_ctor(run)
    r16_tables.tables_c19(run)
    r16_tables.tables_c20(run)
    r16_tables.tables_c18(run)
    r16_tables.tables_c05(run)
    r16_tables.tables_c14(run)
    r16_tables.tables_c06(run)
    r16_tables.tables_c04(run)
    run.explanation = 'dev R16'


CHECKS['DEV16'] = c_dev16


def c_dev14(run):
    from .rules import r14_interp
    r14_interp.run_r14(run)
    run.explanation = 'dev R14'


CHECKS['DEV14'] = c_dev14


NUMERIC_NOTE = ' The numerically quantified clauses of the property (tolerances, behaviour for all angles) are not decided.'


def _scope_rules(run, pid, r1=True, r2=True, r9=True, generic=True):
    fs = scope(run, pid)
    if r2:
        r2_none.run_r2(run, fs)
    if r1:
        r1_resolve.run_r1(run, fs)
    if generic:
        # function-local rules that state a necessary condition of ANY law about the functions in scope: an angle reaches its
        # kernel converted exactly once on every path (a law in degrees fails otherwise), a value stored without the membership
        # check comes from a closed producer, a self-application forwards its options, the shape typestate of the branches
        seen = set(run.extra.setdefault('_generic_done', []))
        for f in fs:
            if f.key in seen:
                continue
            if any(p in ('unit', 'units') for p in f.allparams):
                r10_args.check_unit_typestate(run, f)
        r10_args.check_recursion_options(run, [f for f in fs if f.key not in seen])
        r10_args.check_none_default_tests(run, [f for f in fs if f.key not in seen])
        r10_args.check_none_belief(run, [f for f in fs if f.key not in seen])
        if not run.extra.get('_getvector_done'):
            # the normaliser root every scope leans on: conversion dtype, default, length test before every value return
            run.extra['_getvector_done'] = True
            r10_args.check_getvector_contract(run)
            r10_args.check_getunit_contract(run)
            r10_args.check_scalartypes(run)
            r4_predicates.check_isvector(run)
        for f in fs:
            if f.key not in seen:
                r7_binary.check_duplicates(run, f)           # x - x, x == x, atan2(a, a), a paired loop variable that is never used
                r24_views.check_view_overwrite(run, f)       # a NumPy view read after the storage it looks at was overwritten
                if f.module.short not in ('base/animate', 'timing', 'stdlib/collections', 'base/graphics'):
                    r10_args.check_option_used(run, f)       # an option (check, unit, tol, twist ...) that is accepted but never read
                    r10_args.check_sibling_options(run, f)   # ... or forwarded in one arm of a case split and dropped in another
        r20_shapes.check_shapes(run, [f for f in fs if f.key not in seen])
        r20_shapes.check_inverted_guards(run, [f for f in fs if f.key not in seen])
        r20_shapes.check_slot_completeness(run, [f for f in fs if f.key not in seen])
        r20_shapes.check_layout_by_one_dimension(run, [f for f in fs if f.key not in seen])   # X.T if X.shape[1] == K else X
        r15_closed.check_unchecked_sites(run, keys={f.key for f in fs if f.key not in seen})
        run.extra['_generic_done'] = sorted(seen | {f.key for f in fs})
    if r9:
        # operators and functions in the scope of the property must not modify their operands: an in-place shortcut makes
        # every law that reuses an operand (X**-1 * X, (X*Y)*p, q.interp(..) twice) fail
        # ... and the classes whose objects take part carry no hidden state: every method of a class that owns a function in
        # the scope (and of the concrete classes that inherit it) is included, so a memoised accessor that is not invalidated
        # by the list interface (X[0] = ..., append, reverse) is reported under the property whose laws re-use the object
        prog = run.prog
        keys = {f.key for f in fs}
        classes = set()
        for f in fs:
            g = f
            while g is not None and g.cls is None:
                g = g.parent
            if g is not None and g.cls is not None:
                classes.add(g.cls)
                for anc in g.cls.mro:
                    if hasattr(anc, 'module') and anc.module is not None:
                        classes.add(anc)
        for f in anchors(run, pid):
            for k in r1_resolve.receiver_classes(prog, f):
                classes.add(k)
        for f in prog.analysed_functions():
            g = f
            while g is not None and g.cls is None:
                g = g.parent
            if g is not None and g.cls in classes:
                keys.add(f.key)
        run.extra['state_classes'] = sorted(c.name for c in classes)
        r9_purity.run_r9(run, prog.analysed_functions(), report_only=keys)
    return fs


def c01(run):
    r16_tables.tables_rot(run)
    r16_tables.rotation_words(run)
    r16_tables.tables_frames(run)
    r15_closed.check_unchecked_sites(run)
    # ... and what is stored is the product that was computed: a copy keeps the dtype of ONE operand (functions and their nested helpers)
    r11_symbolic.check_copy_dtype(run, [f for f in run.prog.functions.values() if not f.module.short.startswith('stdlib/')])
    r15_closed.check_unitquaternion_ctor(run)
    r14_interp.check_slerp_forms(run)
    r14_interp.check_uq_interp_forms(run)
    # T16 q2r and the quaternion normaliser
    r16_tables.check_matrix_fn(run, 'base/quaternions:q2r', 'q2r', r16_tables_q2r())
    r16_tables.check_expr_fn(run, 'base/quaternions:unit', 'unit quaternion', 'P0 / norm(P0)')
    r16_tables.tables_c02(run)
    _scope_rules(run, 'C01')
    run.floor('R16', 35)
    run.floor('R15c', 50)
    run.floor('R12', 8)
    run.explanation = ('Closure, structural part: (1) R16 tables -- the literal matrices of rotx/roty/rotz/rot2 equal the rotation '
                       'matrices entry by entry; rodrigues/angvec2r equal I + sin t K + (1 - cos t) K K with K = skew of the '
                       'normalised axis; trexp/trexp2 equal the closed form rt2tr(R, V t); oa2r/trnorm stack unit(o x a), '
                       'unit(a x (o x a)), unit(a) as columns (every column normalised after the cross products) and keep the '
                       'translation; q2r equals the unit-quaternion monomial table; structured inverses are [[R^T, -R^T t],[0,1]] '
                       'on fresh zeros; homogeneous wrappers write only the translation column and the corner 1. (2) R12 -- '
                       'rpy2r/eul2r multiply axis rotations in the documented order. (3) R15c -- at every one of the ~60 '
                       'check=False / norm=False construction sites the stored value comes from a closed producer (those '
                       'functions, @ of members, .T, matrix_power, helpers applying them); an element-wise + - * / result '
                       'flowing into an unchecked constructor is a violation. (4) R13 -- UnitQuaternion stores only '
                       'normalised quaternions unless norm=False; slerp / UnitQuaternion.interp return endpoints, the '
                       'spherical weighted sum, or go through the normalising constructor.' + NUMERIC_NOTE)
    run.trust(*STATIC_TRUST)


def r16_tables_q2r():
    s, x, y, z = 'P0[0]', 'P0[1]', 'P0[2]', 'P0[3]'
    return [['1 - 2*(%s**2 + %s**2)' % (y, z), '2*(%s*%s - %s*%s)' % (x, y, s, z), '2*(%s*%s + %s*%s)' % (x, z, s, y)],
            ['2*(%s*%s + %s*%s)' % (x, y, s, z), '1 - 2*(%s**2 + %s**2)' % (x, z), '2*(%s*%s - %s*%s)' % (y, z, s, x)],
            ['2*(%s*%s - %s*%s)' % (x, z, s, y), '2*(%s*%s + %s*%s)' % (y, z, s, x), '1 - 2*(%s**2 + %s**2)' % (x, y)]]


def c02(run):
    r16_tables.tables_c02(run)
    r16_tables.check_vector_fn(run, 'base/quaternions:conj', 'conj', ['P0[0]', '-P0[1:4]'])
    r16_tables.check_vector_fn(run, 'base/quaternions:qqmul', 'qqmul',
                               ['P0[0]*P1[0] - dot(P0[1:4], P1[1:4])', 'P0[0]*P1[1:4] + P1[0]*P0[1:4] + cross(P0[1:4], P1[1:4])'])
    r16_tables._qpow(run)
    r15_closed.check_twist_sum_arm(run)      # x + y is the twist product only for commuting twists
    r16_tables.check_trlog_dependence(run)
    r21_explog.check_log_general(run)       # twist composition is log(exp(x) exp(y)): the logarithm's general branch and its guards
    r7_binary.run_r7(run, helpers=True, dunders=False)
    # the unchecked results of the group operations come from closed producers: in particular a transpose stands for the
    # inverse only where every receiver class is SO(n) (X ** -n through x.T in the shared SMPose method is wrong for SE(n))
    r15_closed.check_unchecked_sites(run, only=('__pow__', '__ipow__', 'inv', '__truediv__', '__itruediv__', '__mul__', '__imul__',
                                                '__matmul__', 'prod', 'conj'))
    _scope_rules(run, 'C02')
    run.floor('R16', 4)
    run.floor('R15', 20)
    run.explanation = ('Group laws, structural part: composition lambdas multiply left then right (x @ y, qqmul(x, y)); division is '
                       'composition with right.inv() / conj(y); ** folds with matrix_power / the qpow fold (|n| Hamilton products '
                       'from the identity, conjugate for negative n); prod folds left to right from the identity; the structured '
                       'inverses trinv/trinv2/SE2.inv are [[R^T, -R^T t],[0,1]], SO(n).inv is the transpose, unit-quaternion inverse '
                       'is the conjugate, twist inverse is negation and twist composition is log(exp(x) exp(y)) with a logarithm whose axis reads '
                       'off-diagonal entries of R on every path (R17); conj and qqmul '
                       'equal their term tables including the cross-product operand order; the broadcasting helpers use both '
                       'operands in order (R7).' + NUMERIC_NOTE)
    run.trust(*STATIC_TRUST)


def c03(run):
    r21_explog.check_exp_dispatch(run)
    r16_tables.tables_plumbing(run)         # rt2tr / Ab2M / r2t / t2r / tr2rt: the slots every other table takes for granted
    r21_explog.check_log_general(run)
    r21_explog.check_twist_pairs(run)
    r21_explog.check_ginv(run)
    r21_explog.check_exp_dependence(run)
    r16_tables.check_trlog_dependence(run)
    r25_log2.check_log2(run)                # planar logarithm in closed form (no general matrix logarithm: complex at a half turn)
    r16_tables.tables_frames(run)
    r20_shapes.check_shapes(run, run.prog.analysed_functions())
    r16_tables.check_routes(run, [
        ('super_pose:SMPose.log', '2D logarithm of every element with the twist option', ['[trlog2(x, twist=twist) for x in self.data]'], 'any'),
        ('super_pose:SMPose.log', '3D logarithm of every element with the twist option', ['[trlog(x, twist=twist) for x in self.data]'], 'any'),
        ('twist:Twist3.SE3', 'pose of a twist', ['SE3(self.exp())'], 'return'),
        ('twist:Twist2.SE2', 'pose of a twist', ['SE2(self.exp())'], 'return'),
        ('pose3d:SE3.Twist3', 'twist of a pose', ['Twist3(self.log(twist=True))'], 'return'),
        ('pose2d:SE2.Twist2', 'twist of a pose', ['Twist2(self.log(twist=True))'], 'return'),
    ], rule='R21')
    r16_tables.tables_c18_exp(run) if hasattr(r16_tables, 'tables_c18_exp') else None
    r10_args.run_r10(run, [run.prog.func(k) for k in ('twist:Twist3.exp', 'twist:Twist2.exp')])
    _scope_rules(run, 'C03')
    run.floor('R21', 30)
    run.floor('R19', 3)
    run.floor('R17', 4)
    run.explanation = ('Exponential and logarithm, structural clauses only: (a) every documented argument form of SO3/SE3/SO2/SE2.Exp (algebra '
                       'matrix, twist vector as list and as ndarray, sequence of twists) is pushed abstractly through the guards of the method '
                       'and reaches the documented route (whole argument to trexp / one call per element); (b) the general branch of the SO(3) '
                       'logarithm composed with Rodrigues\' formula is the identity term by term ((trace - 1)/2 = cos t, (R - R^T)/2 = sin t K), '
                       'Rodrigues and the V integral of trexp/trexp2 equal their closed forms; (c) in every branch of trlog/trlog2 the twist=True '
                       'result is the vee of the twist=False result; (d) the SE(3) logarithm is (S, Ginv t) with Ginv = I - S/2 + beta S S, S from '
                       'the recursion on R, w = vex(S); (e) the half-turn branch reads off-diagonal entries (R17); (f) the class methods route to '
                       'these functions with twist/check/units threaded and carry no hidden state. NOT decided: everything the property says '
                       'about accuracy -- branch thresholds, behaviour near the identity and near a half turn, 1e-7 agreement, log(exp(S)) = S as '
                       'numbers.  (g) the planar logarithm reads the angle as atan2(sin, cos) through the writer table of rot2 and the '
                       'translational part as theta V^-1 t in closed form, divided by theta only under a test of theta; a general matrix logarithm '
                       '(scipy logm) is not accepted: it is complex at a half turn (R25).')
    run.trust(*STATIC_TRUST)


CHECKS['C03'] = c03


def c04(run):
    r16_tables.tables_c04(run)
    r16_tables.check_trlog_dependence(run)
    r16_tables.check_matrix_fn(run, 'base/quaternions:q2r', 'q2r', r16_tables_q2r())
    r19_angles.check_r2q(run)
    r10_args.run_r10(run, [run.prog.func(k) for k in ('twist:Twist3.Rx', 'twist:Twist3.Ry', 'twist:Twist3.Rz')])
    _scope_rules(run, 'C04')
    run.floor('R13', 40)
    run.explanation = ('Representations agree, structural part: every named constructor shared by SO3, SE3 and UnitQuaternion reduces to '
                       'the same base primitive with unit/order/t threaded (sibling cross-check); the half-angle quaternions of '
                       'UnitQuaternion.Rx/Ry/Rz put sin(a/2) in the right slot; conversions route through r2q / q2r / r2t / log / exp; '
                       'twist constructors declare conversion from the matching SE class; unit-quaternion equality uses the '
                       'double-cover form (q == -q) through isequal(unitq=True); the unit dual quaternion of an SE3 is '
                       '(UnitQuaternion(R), 0.5 Pure(t) real) with that operand order and converts back through 2 d conj(r); the '
                       'SO2->SE2, SO3->SE3 and SE2->SE3 embeddings write the expected blocks; in the logarithm used by the pose<->twist '
                       'conversions every non-trivial return of the SO(3) branch depends on off-diagonal entries of R (the axis is '
                       'not recoverable from the diagonal alone).' + NUMERIC_NOTE)
    run.trust(*STATIC_TRUST)


def c05(run):
    r16_tables.rotation_words(run)
    r16_tables.tables_c05(run)
    for k in r10_args.EXTRACTORS:
        r10_args.check_extraction_units(run, run.prog.func(k))
    r10_args.check_order_tables(run)
    fl = anchors(run, 'C05')
    r10_args.run_r10(run, fl)
    prog = run.prog
    for k in ('pose3d:SO3.eul', 'pose3d:SO3.rpy', 'quaternion:UnitQuaternion.rpy', 'quaternion:UnitQuaternion.eul', 'pose2d:SE2.xyt', 'pose2d:SO2.theta'):
        r8_accessors.check_accessor(run, prog.func(k))
    r16_tables.check_expr_fn(run, 'base/transforms2d:xyt2tr', 'xyt2tr is covered by the slot table', 'T') if False else None
    r16_tables._trot2(run)
    r16_tables.check_double_cover(run)
    # the representation constructors of the classes (AngVec, Eul, RPY, OA, EulerVec, Rx ...): what they store without the membership
    # check comes from a closed producer (unit axis times sin, the base conversion function)
    r15_closed.check_unchecked_sites(run, only=('AngVec', 'Eul', 'RPY', 'OA', 'EulerVec', 'AngleAxis', 'Rx', 'Ry', 'Rz', 'TwoVectors', 'Vec3', 'SO3', 'SE3',
                                                'UnitQuaternion', 'Exp'))
    r19_angles.check_tr2rpy(run, r16_tables.RPY_WORDS)
    r19_angles.check_pivot_tables(run)
    r19_angles.check_tr2eul(run, [('z', 0), ('y', 1), ('z', 2)])
    run.floor('R19', 33)
    _scope_rules(run, 'C05')
    run.floor('R12', 8)
    run.floor('R16', 10)
    run.explanation = ('Angle sets, structural part: rpy2r builds Rz(yaw)Ry(pitch)Rx(roll) for zyx|vehicle, Rx Ry Rz for xyz|arm, Ry Rx Rz '
                       'for yxz|camera and eul2r builds Rz Ry Rz (rotation words over the packed angle vector); rpy2r and tr2rpy accept '
                       'the same order names and reject others; every extraction function scales by 180/pi exactly under unit==deg '
                       'and every constructor converts through getunit exactly once (unit typestate); the singular branch of tr2eul '
                       'is the general formula specialised at phi = 0 and flip selects the second solution; class accessors thread '
                       'unit/order/flip identically in the single- and multi-valued branches; xyt2tr/tr2xyt use the same slots; '
                       'tr2angvec returns (norm, unit vector) of the rotation vector; the angle accessors of UnitQuaternion are invariant '
                       'under q -> -q (double cover, parity of the normal form). The atan2/asin formulas of tr2rpy and behaviour '
                       'within 1e-12 of the singularities are not decided.')
    run.trust(*STATIC_TRUST)


def c06(run):
    r16_tables.tables_c06(run)
    r16_tables.check_expr_fn(run, 'base/quaternions:qvmul', 'qvmul sandwich', 'qqmul(P0, qqmul(pure(P1), conj(P0)))[1:4]',
                             alts=('qqmul(qqmul(P0, pure(P1)), conj(P0))[1:4]',))
    r16_tables._dualquat(run)
    r16_tables.check_representation_mix(run)             # q.vec3 is the vector part of the s >= 0 representative: not to be paired with q.s
    r22_dualquat.check_point_route(run)
    r16_tables.check_udq_construction(run, rule='R22')    # ... over the stored pair (r, t r / 2) the constructor makes from an SE3
    r16_tables.check_pair_integrity(run, rule='R22')      # (X*Y)*p goes through UnitDualQuaternion(real, dual): the pair is stored as given
    r7_binary.check_helper_operand_order(run)             # ... and through quaternion products whose operands stay in order
    # X.inv() * (X * p) == p: the inverse used by the point laws is the structured inverse, element by element
    r16_tables.check_routes(run, [r for r in r16_tables.ROUTES_C02 if r[0] in ('pose3d:SE3.inv', 'pose2d:SE2.inv', 'pose3d:SO3.inv', 'pose2d:SO2.inv')], rule='R15')
    r16_tables.tables_c02_inverse(run) if hasattr(r16_tables, 'tables_c02_inverse') else None
    _scope_rules(run, 'C06')
    run.floor('R16', 18)
    run.explanation = ('Points, routing part only: in SMPose.__mul__ the operands are never rebound to a transformed value; the point is '
                       'normalised by getvector; SE(n) routes are h2e(A @ e2h(v)) and SO(n) routes A @ v under the matching isSE/isSO '
                       'guards, for single and multi-valued poses and for N-column arrays (column i with pose i); non-conforming '
                       'arrays raise; homtrans/h2e/e2h have the lift / project forms; the unit-quaternion routes go through '
                       'qvmul = q (0,v) conj(q); the unit-dual-quaternion route, composed in the quaternion algebra over the atoms r, r~, t, p '
                       '(q = r + eps t r / 2, product rule and conjugate read from the code), has the dual part r p r~ + t (R22); in every '
                       'matrix product the pose is the left factor; the classes involved carry no hidden state. Numerical equality of '
                       'the routes is not decided.')
    run.trust(*STATIC_TRUST)


def c11(run):
    r14_interp.run_r14(run)
    r8_accessors.check_accessor(run, run.prog.func('super_pose:SMPose.interp'))
    r20_shapes.check_shapes(run, run.prog.analysed_functions())
    run.floor('R20', 10)
    _scope_rules(run, 'C11')
    run.floor('R14', 25)
    run.explanation = ('Interpolation, structural part: every value-returning path of trinterp, slerp and UnitQuaternion.interp has passed '
                       '0 <= s <= 1 (or an endpoint equality s == 0 / s == 1) with the false edge raising; under shortest and dot < 0 '
                       'both the quaternion and the dot product are negated and the interpolation angle is computed after that '
                       'flip; slerp returns only endpoints or the spherical weighted sum (a linear blend without normalisation is a '
                       'violation); UnitQuaternion.interp forms the equivalent weighted sum and returns through the normalising '
                       'constructor; trinterp feeds slerp with start first and end second (identity when start is omitted), '
                       'interpolates the translation linearly and rebuilds with rt2tr(q2r(.), .); trinterp2 uses one linear form for '
                       'angle and translation; SMPose.interp routes by dimension and maps vector s / sequence poses element-wise; R20: under the '
                       'ismatrix facts of each branch the shapes pushed through t2r/r2t/q2r meet the shape each base function accepts (the '
                       'SO(3) branch of trinterp is not dead). '
                       'Constant-rate and fixed-axis behaviour as numerical statements are not decided.')
    run.trust(*STATIC_TRUST)


def c12(run):
    r16_tables.tables_c12(run)
    r16_tables.check_routes(run, r16_tables.ROUTES_C12)
    r7_binary.check_helper_operand_order(run)
    # ... for the log method every quaternion class resolves to (an override in UnitQuaternion is the one unit quaternions use); the
    # accessors that R16s requires to be the same for q and -q (R, angvec, rpy ...) carry no sign either
    seen_log = set()
    for cname_ in ('Quaternion', 'UnitQuaternion'):
        k_, mem_ = run.prog.lookup_member(run.prog.cls(cname_), 'log')
        if mem_ is not None and mem_.key not in seen_log:
            seen_log.add(mem_.key)
            r16_tables.check_sign_dependence(run, mem_.key, 's', blind=('v', 'norm') + tuple(x.split('.')[-1] for x in r16_tables.DOUBLE_COVER),
                                             why='quaternions (s, v) and (-s, v) are different but get the same '
                                             'logarithm, so exp(log(q)) cannot return q when the scalar part is negative (angle beyond pi/2)')
    if 'quaternion:Quaternion.log' not in seen_log:
        run.error('R17: Quaternion.log not found in the current source', hard=True)
    _scope_rules(run, 'C12')
    run.floor('R16', 18)
    run.floor('R15', 10)
    run.explanation = ('Quaternion algebra, term tables only: matrix(q) equals the left-multiplication table; conj, pure, inner, qnorm, '
                       'q2v/v2q have their slot forms; qqmul equals [s1 s2 - v1.v2, s1 v2 + s2 v1 + v1 x v2] including the operand '
                       'order of the cross product; qvmul is the sandwich q (0,v) conj(q); dot/dotb equal 1/2 [-qv.w, (q0 I -/+ '
                       'skew(qv)) w]; q2r equals the monomial table; qpow is a correct fold (linear, or square-and-multiply with the '
                       'squaring step) from the identity with conjugation for negative exponents; the dual-quaternion product is '
                       '(l.r r.r, l.r r.d + l.d r.r) with non-commutative operand order, its 8x8 matrix is [[R,0],[D,R]], conj/vec/'
                       'norm have their forms; the class operators route to these functions; the quaternion logarithm depends on the sign '
                       'of the scalar part (R17: a logarithm computed from |v| and |q| alone cannot be inverted by exp). The universally quantified identities '
                       '(associativity, norm multiplicativity, exp/log) are not decided; vvmul equals a x b + s_a b + s_b a with the scalar parts '
                       'recomputed as sqrt(1 - |.|^2), UnitQuaternion.vec3/qvmul/dot/dotb route to q2v/vvmul/dot/dotb with the operands in order.')
    run.trust(*STATIC_TRUST)


def c13(run):
    r16_tables.tables_c13(run)
    r16_tables.check_routes(run, [
        ('pose3d:SE3.Ad', 'adjoint of the pose', ['adjoint(self.A)'], 'return'),
        ('pose3d:SE3.jacob', 'velocity Jacobian', ['tr2jac(self.A, samebody=False)'], 'return'),
        ('pose3d:SE3.delta', 'differential motion between poses', ['tr2delta(self.A, X2.A)'], 'return'),
        ('pose3d:SE3.Delta', 'pose from differential motion', ['cls(delta2tr(d), check=False)'], 'return'),
        ('twist:Twist3.Ad', 'adjoint through the exponential', ['self.SE3().Ad()'], 'return'),
    ], rule='R16')
    # Ad(T^-1) = Ad(T)^-1 is stated with the group inverse: X.inv() and X ** -n are closed (R15c on the group operations)
    r15_closed.check_unchecked_sites(run, only=('inv', '__pow__'))
    fs13 = _scope_rules(run, 'C13')
    r11_symbolic.check_allocations(run, only={f.key for f in fs13}, floor=4, symbolic=False)
    run.floor('R16', 20)
    run.explanation = ('Lie-algebra maps, table part: skew (n=1, n=3) equals the antisymmetric cross-product matrix entry by entry; vex '
                       'reads half the antisymmetric differences and vex(skew(v)) = v holds by composing the two literal tables; '
                       'skewa writes skew(w) into the rotation block and v into the last column of a fresh zero matrix, vexa reads '
                       'hstack(transl, vex(t2r)); cross equals its component table; adjoint is [[R, skew(t) R],[0, R]] (and '
                       '[[R,0],[0,R]] for SO(3)), tr2jac is [[R^T, (skew(t) R)^T],[0,R^T]] / [[R^T,0],[0,R^T]], Twist3.ad is '
                       '[[skew(w), skew(v)],[0, skew(w)]]; tr2delta forms the increment as the group word T0^-1 * T1 (T0 alone for '
                       'one argument) and reads [transl(Td), vex(t2r(Td) - I)]; delta2tr = I + skewa(d); the SE3 methods route to '
                       'these functions; result arrays allocated with the dtype of one argument receive only values derived from that argument '
                       '(R11a: an integer first pose must not truncate the increment).' + NUMERIC_NOTE)
    run.trust(*STATIC_TRUST)


def c14(run):
    r16_tables.tables_c14(run)
    r16_tables._frame(run, 'base/transforms3d:trnorm', o='P0[:3, 1]', a='P0[:3, 2]', ret_plain=False)
    r16_tables._frame2(run)
    r4_predicates.run_vector_predicates(run)        # unittwist / unit decide their branch with iszerovec: the predicate has its definition
    r15_closed.check_unitquaternion_ctor(run)
    _scope_rules(run, 'C14')
    run.floor('R16', 25)
    run.explanation = ('Normalisation, structural part: trnorm rebuilds the frame from the second and third columns as unit(o x a), '
                       'unit(a x (o x a)), unit(a) -- every column normalised after the cross products -- stacked as columns, and keeps '
                       'the translation; unit/unitvec/unitvec_norm divide a vector by the norm of the same vector; the unit-twist '
                       'functions test the rotational part and scale by norm(v) when it is zero and by norm(w) / abs(w) otherwise; '
                       'angdiff is mod(x + pi, 2 pi) - pi for x = a and x = a - b; SMPose.norm routes to trnorm / trnorm2 by dimension, '
                       'Quaternion.unit to unit(); the UnitQuaternion constructor normalises caller data. Idempotence and identity on '
                       'valid input to 1e-12 are not decided. Known finding: the twist .unit properties.')
    run.trust(*STATIC_TRUST)


def c18(run):
    r16_tables.tables_c18(run)
    prog = run.prog
    r4_predicates.run_vector_predicates(run)        # isprismatic / isrevolute / unit are decided by iszerovec and isunitvec
    r8_accessors.check_element_slices(run, ['twist:SMTwist.isprismatic', 'twist:SMTwist.isrevolute', 'twist:SMTwist.isunit'])
    # ... and answer with a list for several values: as a condition they need len(self) == 1
    if r8_accessors.check_list_truth(run, [f for f in prog.analysed_functions() if f.module.short == 'twist']) < 2:
        run.error('R8t: fewer than 2 truth-value uses of the list-valued twist accessors (anchor not found in the current source)')
    r10_args.run_r10(run, [prog.func('twist:Twist3.exp'), prog.func('twist:Twist2.exp'), prog.func('twist:Twist3.Rx'),
                           prog.func('twist:Twist3.Ry'), prog.func('twist:Twist3.Rz')])
    for k in ('twist:SMTwist.isprismatic', 'twist:SMTwist.isrevolute', 'twist:SMTwist.isunit', 'twist:Twist3.se3', 'twist:Twist2.se2',
              'twist:Twist3.exp', 'twist:Twist2.exp', 'twist:SMTwist.inv'):
        r8_accessors.check_accessor(run, prog.func(k))
    _scope_rules(run, 'C18')
    run.floor('R16', 20)
    run.explanation = ('Unit twists, table part: Revolute builds (v, w) = (-w x q [+ pitch w], unitvec(a)), Prismatic (unitvec(a), 0), the '
                       'planar constructors their analogues; v/w slots, pitch = w.v, theta = |w|, pole = w x v / theta and the line of '
                       'action Plucker(-v - pitch w, w) have their forms; exp converts theta through getunit on every path (unit '
                       'typestate) and is SE(trexp(S * theta)) for scalar and element-wise for vector theta; se3/se2 = skewa(S); '
                       'inverse is negation; S * k and k * S scale the twist (operator table C08); isprismatic tests the rotational '
                       'part; multi-valued branches respect element kinds. Fixed-point and rotation-angle statements are not decided.')
    run.trust(*STATIC_TRUST)


def c19(run):
    r16_tables.tables_c19(run)
    r16_tables.check_column_branch_agreement(run, 'geom3d:Plucker.contains', 'x')
    r23_lines.check_intersect_plane(run)
    r23_lines.check_closest(run)
    r23_lines.check_distance(run)
    r10_args.check_recursion_options(run, [f for f in run.prog.analysed_functions() if f.module.short == 'geom3d'])
    _scope_rules(run, 'C19')
    run.floor('R16', 20)
    run.explanation = ('Pluecker lines, convention tables: one moment convention v = w x p in PQ, PointDir, Planes and Twist3.line; '
                       'principal point v x w / w.w, point(lam) = pp + uw lam, closest: lam = (x - pp).uw, p = point(lam), d = |x - p|; '
                       'one plane convention n.x + d = 0: the writer Plane.PN and the readers Plane.contains (checked by composing '
                       'the two expressions: the residual at the defining point vanishes identically), Planes and intersect_plane; '
                       'SE3 premultiplication by [[R, skew(-t) R],[0, R]]; equality compares unit 6-vectors; the parallelism test is '
                       'invariant under reversing a direction (parity analysis of the normal form); Plucker.contains applies the same '
                       'predicate, with the caller\'s tolerance, to a single point and to each column of a 3xN array. Metric statements (distances, '
                       'the line parameter of intersect_plane) are not decided.')
    run.trust(*STATIC_TRUST)


def c20(run):
    r16_tables.tables_c20(run)
    # SE3 * spatial vector applies left.Ad(): the adjoint block table [[R, skew(t) R], [0, R]] and the route SE3.Ad -> base.adjoint
    r16_tables._adjoint(run)
    r16_tables.check_routes(run, [('pose3d:SE3.Ad', 'adjoint of a pose through base.adjoint', ['adjoint(self.A)', 'tr2adjoint(self.A)'], 'return')], rule='R16')
    r7_binary.check_dunder_deps(run, run.prog.func('spatialvector:SpatialInertia.__add__'))
    r3_ctor.run_r3(run, classes=['SpatialVector', 'SpatialVelocity', 'SpatialAcceleration', 'SpatialForce', 'SpatialMomentum', 'SpatialInertia'])
    # multi-valued operands: .A of a spatial-vector operand is a list when it holds several vectors
    prog = run.prog
    r8_accessors.check_accessor(run, prog.func('spatialvector:SpatialVector.__init__'), extra_objs=('value',), skip_self=True)
    nsv = 0
    for f in prog.analysed_functions():
        # every operator method defined by a class of the spatial-vector module (overrides in subclasses included): the
        # other operand is a list-capable object too
        if f.module.short == 'spatialvector' and f.cls is not None and f.parent is None and f.name in r8_accessors.OPERATOR_DUNDERS:
            nsv += 1
            # a SpatialInertia has no multi-valued constructor form (mass/centre/inertia or one 6x6 matrix): its own value is
            # single, only the vector operand can hold several values
            single = f.cls.name == 'SpatialInertia'
            extra = tuple(p for p in f.params if p != f.selfname)
            if single and f.name in ('__add__',):
                extra = ()
            r8_accessors.check_accessor(run, f, extra_objs=extra, skip_self=single)
    if nsv < 8:
        run.error('C20: only %d operator methods found in spatialvector.py (expected >= 8)' % nsv)
    _scope_rules(run, 'C20')
    run.floor('R16', 14)
    run.explanation = ('Spatial vectors, table and guard part: + and - have a same-class guard and an equal-length guard that dominate '
                       'the element-wise arithmetic and return the same class; the 6x6 motion cross-product matrix equals [[skew(w), '
                       'skew(v)],[0, skew(w)]] with v = A[0:3], w = A[3:6] entry by entry, the motion result is vcross @ m and the '
                       'force result -vcross^T @ f; SE3/Twist3 premultiplication applies Ad to motion vectors and Ad^T to force '
                       'vectors; the spatial inertia is the parallel-axis block matrix with C = skew(r); inertias add both operands; '
                       'the constructor applies its argument-form tests to the raw argument (a list of values is never coerced to a '
                       '6xN matrix).' + NUMERIC_NOTE)
    run.trust(*STATIC_TRUST)


for _k, _f in (('C01', c01), ('C02', c02), ('C04', c04), ('C05', c05), ('C06', c06), ('C11', c11), ('C12', c12), ('C13', c13),
               ('C14', c14), ('C18', c18), ('C19', c19), ('C20', c20)):
    CHECKS[_k] = _f
